"""Sensitivity self-test: hand-written mutants of tenpy (DESIGN.md 3.8 / 4.8).

Each mutant is applied to a scratch git worktree of /repo (outside /repo and /verif), the relevant
check is run against that worktree (VERIF_REPO), and the worktree is removed again.  A mutant is
"caught" when the check exits 1 with a VIOLATION line.  Nothing here ever touches /repo itself.

usage: /venv/bin/python selftest/mutants.py [--only ID[,ID]] [--jobs N] [--tier quick]
"""

import argparse
import concurrent.futures as cf
import glob
import json
import os
import shutil
import subprocess
import sys
import time

VERIF = os.path.dirname(os.path.dirname(os.path.abspath(__file__)))
REPO = '/repo'

MUTANTS = [
    # ---------------------------------------------------------------- C18
    dict(id='M18-01', prop='C18', file='tenpy/simulations/simulation.py', descr='write directly over the output (no rename to backup)',
         old='''                if backup_filename.exists():
                    backup_filename.unlink()  # remove if exists
                output_filename.rename(backup_filename)
''', new='''                pass
'''),
    dict(id='M18-02', prop='C18', file='tenpy/simulations/simulation.py', descr='unlink the backup before the new file is written',
         old='''        # actually save the results to disk
        self._save_to_file(results, output_filename)
''', new='''        if backup_filename is not None and backup_filename.exists():
            backup_filename.unlink()
        # actually save the results to disk
        self._save_to_file(results, output_filename)
'''),
    dict(id='M18-03', prop='C18', file='tenpy/simulations/simulation.py', descr='save_at_checkpoint gets a priority above the measurement listener',
         old='''            def make_simulation_measurements(algorithm):
                assert algorithm is self.engine
                self.make_measurements()

            self.engine.checkpoint.connect(make_simulation_measurements)''',
         new='''            def make_simulation_measurements(algorithm):
                assert algorithm is self.engine
                self.make_measurements()

            self.engine.checkpoint.connect(make_simulation_measurements, priority=-200)'''),
    dict(id='M18-04', prop='C18', file='tenpy/simulations/time_evolution.py', descr='checkpoint emitted before make_measurements in RealTimeEvolution',
         old='''            self.make_measurements()
            self.engine.checkpoint.emit(self.engine)  # TODO: is this a good idea?''',
         new='''            self.engine.checkpoint.emit(self.engine)  # TODO: is this a good idea?
            self.make_measurements()'''),
    dict(id='M18-05', prop='C18', file='tenpy/algorithms/mps_common.py', descr='sweeps not restored from resume_data',
         old='''        if resume_data is not None and 'sweeps' in resume_data:
            self.sweeps = resume_data['sweeps']''',
         new='''        if resume_data is not None and 'sweeps' in resume_data:
            pass'''),
    dict(id='M18-06', prop='C18', file='tenpy/algorithms/algorithm.py', descr='evolved_time not restored from resume_data',
         old='''            self.evolved_time = self.resume_data['evolved_time']
''', new='''            pass
'''),
    dict(id='M18-07', prop='C18', file='tenpy/simulations/simulation.py', descr='measurements not converted back to lists in from_saved_checkpoint (first resumed measurement replaces history)',
         old='''            sim.results['measurements'] = {k: list(v) for k, v in sim.results['measurements'].items()}''',
         new='''            sim.results['measurements'] = {k: list(v)[:-1] for k, v in sim.results['measurements'].items()}'''),
    dict(id='M18-08', prop='C18', file='tenpy/algorithms/mps_common.py', descr='first iteration after resume emits a checkpoint (duplicates a measurement with measure_at_algorithm_checkpoints)',
         old='''            if not is_first_sweep:
                self.checkpoint.emit(self)''',
         new='''            if not is_first_sweep or self.sweeps > 0:
                self.checkpoint.emit(self)'''),
    dict(id='M18-09', prop='C18', file='tenpy/tools/hdf5_io.py', descr='pickle output opened in append mode',
         old='''        with open(filename, mode + 'b') as f:
            pickle.dump(data, f)
    elif filename.endswith('.pklz'):''',
         new='''        with open(filename, ('a' if mode == 'w' else mode) + 'b') as f:
            pickle.dump(data, f)
    elif filename.endswith('.pklz'):'''),
    dict(id='M18-10', prop='C18', file='tenpy/simulations/simulation.py', descr='OSError swallowed in _save_to_file',
         old='''        hdf5_io.save(results, output_filename)
''', new='''        try:
            hdf5_io.save(results, output_filename)
        except OSError:
            self.logger.warning('saving failed')
'''),
    dict(id='M18-11', prop='C18', file='tenpy/simulations/simulation.py', descr='backup removed on SIGINT path before saving (graceful abort writes in place)',
         old='''        if save_every is not None and now - self._last_save > save_every or self.received_signal_sigint:
            self.save_results()''',
         new='''        if save_every is not None and now - self._last_save > save_every or self.received_signal_sigint:
            if self.received_signal_sigint and self._backup_filename is not None:
                self._backup_filename, bak = None, self._backup_filename
                self.save_results()
                self._backup_filename = bak
            else:
                self.save_results()'''),
    dict(id='M18-12', prop='C18', file='tenpy/algorithms/algorithm.py', descr='trunc_err not restored (re-introduces F5)',
         old='''            if 'trunc_err' in self.resume_data:
                self.trunc_err = self.resume_data['trunc_err']
''', new=''''''),
    dict(id='M18-13', prop='C18', file='tenpy/simulations/time_evolution.py', descr='a resumed time evolution never reaches its final time (liveness)',
         old='''        self.final_time = self.options['final_time'] - 1.0e-10  # subtract eps: roundoff errors''',
         new='''        self.final_time = self.options['final_time'] - 1.0e-10  # subtract eps: roundoff errors
        if self.loaded_from_checkpoint:
            self.final_time = float('inf')'''),
    # ---------------------------------------------------------------- C20
    dict(id='M20-01', prop='C20', file='tenpy/tools/cache.py', descr='drop join_tasks() in ThreadedStorage.save pending-preload branch',
         old='''            self.worker.join_tasks()
            assert key in self._loaded
            self._loaded[key] = value  # overwrite with new value''',
         new='''            self._loaded[key] = value  # overwrite with new value'''),
    dict(id='M20-02', prop='C20', file='tenpy/tools/cache.py', descr='drop join_tasks() in ThreadedStorage.load (busy-wait free read of _loaded)',
         old='''        if key not in self._loaded:
            self.worker.join_tasks()  # wait for the tasks to finish loading
        assert key in self._loaded
        val = self._loaded[key]''',
         new='''        if key not in self._loaded:
            self.worker.tasks.join()  # wait for the tasks to finish loading
        val = self._loaded.get(key)'''),
    dict(id='M20-03', prop='C20', file='tenpy/tools/thread.py', descr='task_done() only on success (not in finally)',
         old='''                except Exception:
                    # flag the failure before `task_done()` can release a waiting `join_tasks()`
                    self.exit.set()
                    raise
                finally:
                    self.tasks.task_done()''',
         new='''                except Exception:
                    # flag the failure before `task_done()` can release a waiting `join_tasks()`
                    self.exit.set()
                    raise
                else:
                    self.tasks.task_done()'''),
    dict(id='M20-04', prop='C20', file='tenpy/tools/thread.py', descr='remove the drain loop after worker death',
         old='''            while not self.tasks.empty():
                self.tasks.get()
                self.tasks.task_done()''',
         new='''            pass'''),
    dict(id='M20-05', prop='C20', file='tenpy/tools/thread.py', descr='put_task does not test liveness',
         old='''        while True:
            self._test_worker_alive()
            try:
                self.tasks.put(task, timeout=1.0)''',
         new='''        while True:
            try:
                self.tasks.put(task, timeout=1.0)'''),
    dict(id='M20-06', prop='C20', file='tenpy/tools/cache.py', descr='__setitem__ does not update short_term_cache',
         old='''        self.long_term_storage.save(key, val)
        if key in self.short_term_keys:
            self.short_term_cache[key] = val''',
         new='''        self.long_term_storage.save(key, val)
        if key in self.short_term_keys and key not in self.short_term_cache:
            self.short_term_cache[key] = val'''),
    dict(id='M20-07', prop='C20', file='tenpy/tools/cache.py', descr='set_short_term_keys does not prune the short_term_cache',
         old='''        for key in list(sc.keys()):
            if key not in keys:
                del sc[key]''',
         new='''        pass'''),
    dict(id='M20-08', prop='C20', file='tenpy/tools/cache.py', descr='PickleStorage.subcontainer returns the parent directory',
         old='''        res = self.__class__(subdir)
        self._subcontainers.append(res)
        return res''',
         new='''        res = self.__class__(self.directory)
        self._subcontainers.append(res)
        return res'''),
    dict(id='M20-09', prop='C20', file='tenpy/tools/events.py', descr='listeners sorted ascending by priority',
         old='''key=lambda listener: -listener.priority)''', new='''key=lambda listener: listener.priority)'''),
    dict(id='M20-10', prop='C20', file='tenpy/tools/events.py', descr='disconnect by position instead of id',
         old='''            if listener.listener_id == listener_id:
                del self.listeners[i]''',
         new='''            if i == listener_id:
                del self.listeners[i]'''),
    dict(id='M20-11', prop='C20', file='tenpy/tools/cache.py', descr='preload result overrides a later save: save() does not overwrite _loaded',
         old='''            assert key in self._loaded
            self._loaded[key] = value  # overwrite with new value''',
         new='''            assert key in self._loaded'''),
    dict(id='M20-12', prop='C20', file='tenpy/tools/cache.py', descr='ThreadedStorage.delete forgets pending preload bookkeeping and deletes synchronously',
         old='''    def delete(self, key):
        self.worker.put_task(self.disk_storage.delete, key)
''', new='''    def delete(self, key):
        self.disk_storage.delete(key)
'''),
    dict(id='M20-13', prop='C20', file='tenpy/tools/thread.py', descr='__exit__ does not join the worker thread',
         old='''            self.exit.set()
            self.worker_thread.join()''',
         new='''            self.exit.set()'''),
    dict(id='M20-14', prop='C20', file='tenpy/tools/events.py', descr='copy() shares the listener list',
         old='''        cp.listeners = self.listeners[:]''', new='''        cp.listeners = self.listeners'''),
    dict(id='M20-15', prop='C20', file='tenpy/tools/thread.py', descr='exit set after task_done again (re-introduces F10)',
         old='''                except Exception:
                    # flag the failure before `task_done()` can release a waiting `join_tasks()`
                    self.exit.set()
                    raise
                finally:''', new='''                finally:'''),
]


def run_mutant(m, tier, extra):
    wt = f'/tmp/verif-mut-{m["id"]}-{os.getpid()}'
    t0 = time.time()
    res = {'id': m['id'], 'prop': m['prop'], 'descr': m['descr']}
    try:
        subprocess.run(['git', '-C', REPO, 'worktree', 'add', '-q', '--detach', wt, 'HEAD'], check=True,
                       capture_output=True)
        for so in glob.glob(os.path.join(REPO, 'tenpy/linalg/_npc_helper*.so')):
            shutil.copy(so, os.path.join(wt, 'tenpy/linalg/'))
        path = os.path.join(wt, m['file'])
        s = open(path).read()
        if s.count(m['old']) != 1:
            res['error'] = f'pattern found {s.count(m["old"])} times'
            return res
        open(path, 'w').write(s.replace(m['old'], m['new']))
        env = dict(os.environ, VERIF_REPO=wt, VERIF_REPLAY_DIR=os.path.join(wt, '_replays'),
                   VERIF_EVIDENCE_DIR=os.path.join(wt, '_evidence'))
        cmd = [os.path.join(VERIF, 'check'), m['prop'], '--tier', tier] + extra
        out = subprocess.run(cmd, cwd=VERIF, env=env, capture_output=True, text=True, timeout=3600)
        lines = [ln for ln in out.stdout.splitlines() if ln.startswith(('VIOLATION', 'KNOWN-FINDING', 'HARNESS', '  invariant'))]
        res.update({'exit': out.returncode, 'caught': out.returncode == 1 and any(ln.startswith('VIOLATION') for ln in lines),
                    'lines': lines[:8], 'wall_s': round(time.time() - t0, 1)})
        if out.returncode not in (0, 1):
            res['stderr'] = out.stderr[-800:]
    except Exception as e:  # noqa: BLE001
        res['error'] = repr(e)
    finally:
        subprocess.run(['git', '-C', REPO, 'worktree', 'remove', '--force', wt], capture_output=True)
        shutil.rmtree(wt, ignore_errors=True)
    return res


def main():
    ap = argparse.ArgumentParser()
    ap.add_argument('--only', default=None)
    ap.add_argument('--jobs', type=int, default=2)
    ap.add_argument('--tier', default='quick')
    ap.add_argument('--prop', default=None)
    ap.add_argument('rest', nargs='*')
    args = ap.parse_args()
    sel = MUTANTS
    if args.only:
        ids = set(args.only.split(','))
        sel = [m for m in sel if m['id'] in ids]
    if args.prop:
        sel = [m for m in sel if m['prop'] == args.prop]
    results = []
    with cf.ThreadPoolExecutor(max_workers=args.jobs) as ex:
        for r in ex.map(lambda m: run_mutant(m, args.tier, args.rest), sel):
            results.append(r)
            print(json.dumps(r)[:600], flush=True)
    caught = sum(1 for r in results if r.get('caught'))
    print(f'caught {caught} of {len(results)}')
    out = os.path.join(VERIF, 'selftest', 'mutants_last_run.json')
    with open(out, 'w') as f:
        json.dump({'results': results, 'caught': caught, 'total': len(results)}, f, indent=1)
    return 0


if __name__ == '__main__':
    sys.exit(main())
