#!/bin/sh
# Same VERIF_SEED at two worker counts and in two fresh interpreters: the aggregate digests must agree.
# (The per-run same-seed-twice / replay / other-PYTHONHASHSEED tests run inside every check invocation.)
HERE=$(cd "$(dirname "$0")/.." && pwd); cd "$HERE"
T=$(mktemp -d /dev/shm/verif-det.XXXXXX)
rc=0
for P in C20 C18; do
  if [ $P = C20 ]; then ARGS="--runs 24000 --wall 600"; KEY=aggregate_digest_of_all_runs; else ARGS="--configs 24 --histories 1 --wall 900"; KEY=aggregate_digest_of_reference_runs; fi
  for N in 3 16; do
    VERIF_NPROC=$N VERIF_EVIDENCE_DIR=$T/$P-$N VERIF_REPLAY_DIR=$T/r ./check $P --tier quick $ARGS >/dev/null 2>&1
    /venv/bin/python -c "import json;c=json.load(open('$T/$P-$N/$P.json'))['coverage'];print('$P nproc=$N', c['$KEY'], 'stopped_by_wall_cap', c['stopped_by_wall_cap'])" | tee -a $T/out.txt
  done
  n=$(grep "^$P " $T/out.txt | awk '{print $3}' | sort -u | wc -l)
  if [ "$n" != 1 ]; then echo "DETERMINISM MISMATCH for $P"; rc=1; fi
done
rm -rf $T
exit $rc
