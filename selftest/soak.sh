#!/bin/sh
# soak: run a check's quick tier under many VERIF_SEED values; any non-zero exit is printed with its lines.
# usage: selftest/soak.sh C18|C20 FIRST LAST [extra args]
P=$1; A=$2; B=$3; shift 3
HERE=$(cd "$(dirname "$0")/.." && pwd)
i=$A
while [ $i -le $B ]; do
  out=$(VERIF_SEED=$i VERIF_NPROC=${VERIF_NPROC:-8} "$HERE/check" $P --tier quick "$@" 2>&1); rc=$?
  echo "seed=$i exit=$rc $(echo "$out" | tail -1 | cut -c1-200)"
  if [ $rc -ne 0 ]; then echo "$out" | grep -E "VIOLATION|invariant=|faults=|HARNESS" | cut -c1-700; fi
  i=$((i+1))
done
