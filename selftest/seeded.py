"""Confirm and evaluate seeded changes kept under /verif/seeded/<id>/ (patch.diff, demo, meta.json).

For each: a scratch worktree of /repo (outside /repo and /verif) is created; the demonstration must
pass on the unchanged tree and fail with the patch applied; optionally the existing test suite is
run with the patch; then the property's check is run against the patched worktree (VERIF_REPO) and
must report a VIOLATION.  The worktree is removed afterwards.  /repo itself is never modified.

usage: /venv/bin/python selftest/seeded.py DIR [DIR ...] [--tests full|related|none] [--tier quick] [--jobs N]
"""

import argparse
import concurrent.futures as cf
import glob
import json
import os
import shutil
import subprocess
import sys
import time

VERIF = os.path.dirname(os.path.dirname(os.path.abspath(__file__)))
REPO = '/repo'
PY = '/venv/bin/python'


def sh(cmd, cwd=None, env=None, timeout=3600):
    return subprocess.run(cmd, cwd=cwd, env=env, capture_output=True, text=True, timeout=timeout)


def evaluate(d, tests, tier, extra, no_check=False):
    d = os.path.abspath(d)
    name = os.path.basename(d.rstrip('/'))
    meta = json.load(open(os.path.join(d, 'meta.json')))
    prop = meta['property']
    demo = [f for f in sorted(os.listdir(d)) if f.startswith(('demo', 'test_demo')) and f.endswith('.py')][0]
    wt = f'/tmp/verif-seed-{name}-{os.getpid()}'
    res = {'id': name, 'property': prop}
    t0 = time.time()
    env = dict(os.environ, OMP_NUM_THREADS='1', PYTHONDONTWRITEBYTECODE='1')
    try:
        # a change that a later fix: commit made harmless is evaluated on the commit it was written for
        sh(['git', '-C', REPO, 'worktree', 'add', '-q', '--detach', wt, meta.get('evaluate_at_commit', 'HEAD')])
        for so in glob.glob(os.path.join(REPO, 'tenpy/linalg/_npc_helper*.so')):
            shutil.copy(so, os.path.join(wt, 'tenpy/linalg/'))
        demo_cmd = [PY, os.path.join(d, demo)] if not demo.startswith('test_') else \
            [PY, '-m', 'pytest', '-q', '-p', 'no:cacheprovider', os.path.join(d, demo)]
        env_demo = dict(env, PYTHONPATH=wt, TENPY_WORKTREE=wt, TENPY_ROOT=wt, TENPY_TREE=wt, TENPY_SEED_WORKTREE=wt)
        r0 = sh(demo_cmd, cwd=wt, env=env_demo, timeout=900)
        res['demo_unpatched_exit'] = r0.returncode
        ap = sh(['git', '-C', wt, 'apply', os.path.join(d, 'patch.diff')])
        if ap.returncode != 0:
            res['error'] = 'patch does not apply: ' + ap.stderr[-300:]
            return res
        r1 = sh(demo_cmd, cwd=wt, env=env_demo, timeout=900)
        res['demo_patched_exit'] = r1.returncode
        res['demo_ok'] = (r0.returncode == 0 and r1.returncode != 0)
        if tests != 'none':
            if tests == 'full':
                tcmd = [PY, '-m', 'pytest', '-q', '-p', 'no:cacheprovider', '--timeout=900', '-x', '-n', '0'] \
                    if False else [PY, '-m', 'pytest', '-q', '-p', 'no:cacheprovider', '--timeout=900']
            else:
                tcmd = [PY, '-m', 'pytest', '-q', '-p', 'no:cacheprovider', '--timeout=900', 'tests/test_simulation.py',
                        'tests/test_tools.py', 'tests/export_import_test', 'tests/test_dmrg.py', 'tests/test_tebd.py',
                        'tests/test_tdvp.py', 'tests/test_time_evolution.py']
            rt = sh(tcmd, cwd=wt, env=env_demo, timeout=3600)
            res['tests'] = rt.stdout.strip().splitlines()[-1] if rt.stdout.strip() else rt.stderr[-200:]
            res['tests_pass'] = rt.returncode == 0
        if no_check:
            res['wall_s'] = round(time.time() - t0, 1)
            return res
        envc = dict(env, VERIF_REPO=wt, VERIF_REPLAY_DIR=os.path.join(wt, '_replays'),
                    VERIF_EVIDENCE_DIR=os.path.join(wt, '_evidence'))
        rc = sh([os.path.join(VERIF, 'check'), prop, '--tier', tier] + extra, cwd=VERIF, env=envc, timeout=7200)
        lines = [ln for ln in rc.stdout.splitlines() if ln.startswith(('VIOLATION', 'KNOWN-FINDING', 'HARNESS', '  invariant'))]
        res.update({'check_exit': rc.returncode,
                    'caught': rc.returncode == 1 and any(ln.startswith('VIOLATION') for ln in lines),
                    'check_lines': [ln[:300] for ln in lines[:6]], 'wall_s': round(time.time() - t0, 1)})
    except Exception as e:  # noqa: BLE001
        res['error'] = repr(e)
    finally:
        sh(['git', '-C', REPO, 'worktree', 'remove', '--force', wt])
        shutil.rmtree(wt, ignore_errors=True)
    return res


def main():
    ap = argparse.ArgumentParser()
    ap.add_argument('dirs', nargs='+')
    ap.add_argument('--tests', default='none', choices=['full', 'related', 'none'])
    ap.add_argument('--tier', default='quick')
    ap.add_argument('--jobs', type=int, default=2)
    ap.add_argument('--extra', default='')
    ap.add_argument('--no-check', action='store_true')
    args = ap.parse_args()
    extra = args.extra.split() if args.extra else []
    out = []
    with cf.ThreadPoolExecutor(max_workers=args.jobs) as ex:
        for r in ex.map(lambda d: evaluate(d, args.tests, args.tier, extra, args.no_check), args.dirs):
            out.append(r)
            print(json.dumps(r), flush=True)
    return 0


if __name__ == '__main__':
    sys.exit(main())
