#!/bin/sh
# setup_cmd: verify that the toolchain imports; (re)build tenpy's optional compiled kernel if it is missing.
set -u
PY=/venv/bin/python
cd /repo || exit 1
if ! ls tenpy/linalg/_npc_helper*.so >/dev/null 2>&1; then
  echo "setup: compiled kernel missing, trying build_ext --inplace (falls back to pure Python on failure)"
  timeout 900 $PY setup.py build_ext --inplace >/tmp/verif-build.log 2>&1 || echo "setup: build failed; continuing with the pure-Python kernels"
  rm -rf /repo/build
fi
cd /verif || exit 1
$PY - <<'PYEOF'
import sys
sys.path.insert(0, '/repo')
import numpy, scipy, h5py, tenpy
from tenpy.tools import optimization
print('setup ok: tenpy', tenpy.__version__, 'from', tenpy.__file__, '| numpy', numpy.__version__, '| h5py',
      h5py.__version__, '| compiled kernels:', optimization.have_cython_functions)
PYEOF
