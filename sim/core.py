"""Shared plumbing: seed derivation, fork-pool batch driver, evidence / replay / known-finding files."""

import concurrent.futures as cf
import faulthandler
import hashlib
import json
import multiprocessing
import os
import shutil
import sys
import time
import traceback

VERIF = os.path.dirname(os.path.dirname(os.path.abspath(__file__)))
REPO = os.environ.get('VERIF_REPO', '/repo')
EVIDENCE_DIR = os.environ.get('VERIF_EVIDENCE_DIR') or os.path.join(VERIF, 'evidence')
REPLAY_DIR = os.environ.get('VERIF_REPLAY_DIR') or os.path.join(VERIF, 'replays')
KNOWN_FINDINGS = os.path.join(VERIF, 'known_findings.json')


class HarnessError(Exception):
    """Something went wrong in the verification machinery itself (never reported as a violation)."""


def derive_seed(verif_seed, prop, i):
    h = hashlib.sha256(f'{verif_seed}:{prop}:{i}'.encode()).digest()
    return int.from_bytes(h[:8], 'big')


def sub_seed(run_seed, stream):
    h = hashlib.sha256(f'{run_seed}/{stream}'.encode()).digest()
    return int.from_bytes(h[:8], 'big')


def digest(obj):
    return hashlib.sha256(json.dumps(obj, sort_keys=True, default=repr).encode()).hexdigest()[:16]


def h64(obj):
    return int.from_bytes(hashlib.blake2b(repr(obj).encode(), digest_size=8).digest(), 'big')


def scratch_dir(tag):
    base = '/dev/shm' if os.path.isdir('/dev/shm') and os.access('/dev/shm', os.W_OK) else '/tmp'
    d = os.path.join(base, f'verif-{tag}-{os.getpid()}')
    os.makedirs(d, exist_ok=True)
    return d


def rm_scratch(d):
    shutil.rmtree(d, ignore_errors=True)


# ---------------------------------------------------------------------------------------------
# batch driver

def _chunk_entry(args):
    fn_module, fn_name, chunk, per_run_timeout, ctx = args
    mod = sys.modules.get(fn_module) or __import__(fn_module, fromlist=['x'])
    fn = getattr(mod, fn_name)
    out = []
    for item in chunk:
        faulthandler.dump_traceback_later(per_run_timeout, exit=True)
        try:
            out.append(fn(item, ctx))
        except BaseException:  # noqa: BLE001
            out.append({'harness_error': traceback.format_exc(), 'item': item})
        finally:
            faulthandler.cancel_dump_traceback_later()
    return out


def run_pool(fn_module, fn_name, items, ctx, nproc, chunk=50, per_run_timeout=120, wall_cap=None,
             on_result=None, stop_on=None):
    """Run fn(item, ctx) for every item on a fork pool; yields nothing, calls on_result(res) per run.

    Returns (n_done, harness_errors, stopped_early).  A dead or timed-out worker is a harness error.
    """
    t0 = time.time()
    items = list(items)
    chunks = [items[i:i + chunk] for i in range(0, len(items), chunk)]
    harness_errors = []
    n_done = 0
    stopped = False
    mpctx = multiprocessing.get_context('fork')
    with cf.ProcessPoolExecutor(max_workers=nproc, mp_context=mpctx) as ex:
        pending = set()
        it = iter(chunks)
        try:
            def submit_more():
                while len(pending) < 2 * nproc:
                    try:
                        c = next(it)
                    except StopIteration:
                        return
                    pending.add(ex.submit(_chunk_entry, (fn_module, fn_name, c, per_run_timeout, ctx)))

            submit_more()
            while pending:
                remaining = None if wall_cap is None else max(0.0, wall_cap - (time.time() - t0))
                done, pending_now = cf.wait(pending, timeout=remaining if remaining is not None else None,
                                            return_when=cf.FIRST_COMPLETED)
                if not done:  # wall cap reached
                    stopped = True
                    break
                pending.difference_update(done)
                for f in done:
                    try:
                        for res in f.result():
                            n_done += 1
                            if 'harness_error' in res:
                                harness_errors.append(res)
                            elif on_result is not None:
                                on_result(res)
                            if stop_on is not None and stop_on(res):
                                stopped = True
                    except BaseException as e:  # noqa: BLE001  (BrokenProcessPool, ...)
                        harness_errors.append({'harness_error': f'worker process died: {e!r}'})
                        stopped = True
                if stopped:
                    break
                if wall_cap is not None and time.time() - t0 > wall_cap:
                    stopped = True
                    break
                submit_more()
        finally:
            for f in pending:
                f.cancel()
            procs = list((getattr(ex, '_processes', None) or {}).values())
            ex.shutdown(wait=False, cancel_futures=True)
            if stopped or harness_errors:
                # make sure no child lingers (e.g. inside a long chunk after the wall cap)
                for p in procs:
                    try:
                        p.terminate()
                    except Exception:  # noqa: BLE001
                        pass
    return n_done, harness_errors, stopped


# ---------------------------------------------------------------------------------------------
# files

def load_known_findings(prop):
    if not os.path.exists(KNOWN_FINDINGS):
        return []
    with open(KNOWN_FINDINGS) as f:
        data = json.load(f)
    return [e for e in data.get('findings', []) if e.get('property') == prop and e.get('status') == 'known']


def match_known(violation, known):
    """A known finding matches when every item of its `match` dict equals the violation's facts."""
    facts = dict(violation.get('facts', {}))
    facts['invariant'] = violation.get('invariant')
    for e in known:
        m = e.get('match', {})
        if m and all(facts.get(k) == v for k, v in m.items()):
            return e
    return None


def write_replay(prop, payload):
    os.makedirs(REPLAY_DIR, exist_ok=True)
    name = f'{prop}-{digest(payload)}.json'
    path = os.path.join(REPLAY_DIR, name)
    with open(path, 'w') as f:
        json.dump(payload, f, indent=1, sort_keys=True, default=repr)
    return path


def write_evidence(prop, tier, seed, coverage, wall_s, violations, assumptions, level='exploration'):
    os.makedirs(EVIDENCE_DIR, exist_ok=True)
    ev = {
        'property_id': prop,
        'tier': tier,
        'seed': int(seed),
        'level': level,
        'coverage': coverage,
        'assumptions': assumptions,
        'wall_s': round(float(wall_s), 3),
        'violations': int(violations),
    }
    path = os.path.join(EVIDENCE_DIR, f'{prop}.json')
    tmp = path + '.tmp'
    with open(tmp, 'w') as f:
        json.dump(ev, f, indent=1, sort_keys=True, default=repr)
    os.replace(tmp, path)
    return path


def nproc_default():
    try:
        n = len(os.sched_getaffinity(0))
    except AttributeError:
        n = os.cpu_count() or 1
    return max(1, int(os.environ.get('VERIF_NPROC', n)))


def quiet_tenpy():
    """Silence tenpy's logging and warnings: nothing a check prints may depend on them."""
    import logging
    import warnings
    lg = logging.getLogger('tenpy')
    lg.handlers[:] = [logging.NullHandler()]
    lg.propagate = False
    lg.setLevel(logging.CRITICAL + 10)
    warnings.simplefilter('ignore')
