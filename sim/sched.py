"""Deterministic cooperative scheduler over real OS threads (baton passing) with virtual time.

Exactly one simulated thread runs at any moment: the one holding the baton.  Every simulated
synchronisation primitive (Queue / Event / Thread below) is a *switch point* at which the
scheduler decides -- from a seeded PRNG or from a recorded decision list -- who runs next.
Blocking calls register a predicate and an optional deadline in virtual time; when nobody is
ready, the clock jumps to the earliest deadline.  Nobody ready and no deadline = deadlock.

The module objects `SimQueueModule` / `SimThreadingModule` returned by :meth:`Sched.modules`
are drop-in replacements for the names ``queue`` and ``threading`` *as used by
tenpy/tools/thread.py* (``queue.Queue/Empty/Full``, ``threading.Thread/Event``).

Decisions are recorded sparsely: ``[index_of_choice_point, tid]`` only where the choice differs
from the default (stay on the current thread if it is ready, else lowest tid), and
``[index_of_yield_point, dt]`` for virtual-time jitter.  Replaying the two lists reproduces the
execution exactly; deleting an entry replaces that decision with the default, which is what
makes shrinking well defined.
"""

import queue as _real_queue
import sys
import threading as _real_threading
import types

NEW, READY, BLOCKED, DONE = 'NEW', 'READY', 'BLOCKED', 'DONE'


class SimAbort(BaseException):
    """Unwinds a parked simulated thread at the end of a run."""


class SimDeadlock(BaseException):
    """No simulated thread is ready and no deadline is pending."""


class SimHang(BaseException):
    """An API call exceeded its step or virtual-time budget."""


class _ST:
    """State of one simulated thread."""

    __slots__ = ('tid', 'name', 'sem', 'state', 'pred', 'deadline', 'real', 'pending', 'stalled_until', 'exc',
                 'block_label')

    def __init__(self, tid, name):
        self.tid = tid
        self.name = name
        self.sem = _real_threading.Semaphore(0)
        self.state = NEW
        self.pred = None
        self.deadline = None
        self.real = None
        self.pending = None  # exception to raise in this thread when it next gets the baton
        self.stalled_until = None  # fault: unschedulable until this virtual time
        self.exc = None
        self.block_label = None


class Sched:
    """One scheduler per simulated run.  The constructing (real) thread becomes sim thread 0."""

    def __init__(self, rng=None, p_switch=0.3, p_jitter=0.0, decisions=None, jitters=None, trace_files=(),
                 p_line=0.0, max_log=200000):
        self.rng = rng
        self.p_switch = p_switch
        self.p_jitter = p_jitter
        self.replay = decisions is not None
        self._dec_in = {int(i): int(t) for i, t in (decisions or [])}
        self._jit_in = {int(i): float(t) for i, t in (jitters or [])}
        self.decisions = []  # recorded: [choice_index, tid] where non-default
        self.jitters = []  # recorded: [yield_index, dt]
        self.n_choice = 0
        self.n_yield = 0
        self.now = 0.0
        self.steps = 0
        self.switches = 0
        self.threads = []
        self.main = self._new_thread('main')
        self.main.state = READY
        self.main.real = _real_threading.current_thread()
        self.current = self.main
        self.abort = False
        self.log = []  # (label, tid) at context switches: the interleaving signature
        self.max_log = max_log
        self.op_steps0 = 0
        self.op_time0 = 0.0
        self.op_step_limit = None
        self.op_time_limit = None
        self.fair_after = None  # steps within an op after which scheduling becomes round-robin
        self.probes = {}
        self._tls = _real_threading.local()
        self._tls.st = self.main
        self.trace_files = tuple(trace_files)
        self.p_line = p_line
        self.kill_at = {}  # fault: {(tid, nth switch point of that thread): exception instance}
        self._sp_count = {}
        self.kill_labels = None  # restrict kills to switch points with these labels
        self.on_switch_point = None  # optional callback(label) on the running thread (fault hooks)
        self._cur_label = None

    # ------------------------------------------------------------------ bookkeeping
    def _new_thread(self, name):
        st = _ST(len(self.threads), name)
        self.threads.append(st)
        return st

    def probe(self, name, n=1):
        self.probes[name] = self.probes.get(name, 0) + n

    def me(self):
        st = getattr(self._tls, 'st', None)
        if st is None:
            raise RuntimeError('sim primitive called from a thread unknown to the scheduler')
        return st

    def begin_op(self):
        self.op_steps0 = self.steps
        self.op_time0 = self.now

    # ------------------------------------------------------------------ core
    def _is_ready(self, st):
        if st.state == READY:
            pass
        elif st.state == BLOCKED:
            if not (st.pred() or (st.deadline is not None and st.deadline <= self.now)):
                return False
        else:
            return False
        if st.stalled_until is not None:
            if st.stalled_until > self.now:
                return False
            st.stalled_until = None
        return True

    def _ready_list(self):
        return [st for st in self.threads if self._is_ready(st)]

    def _next_wakeup(self):
        ts = []
        for st in self.threads:
            if st.state == READY:
                base = self.now
            elif st.state == BLOCKED:
                base = self.now if st.pred() else st.deadline
            else:
                continue
            if base is None:
                continue
            if st.stalled_until is not None:
                base = max(base, st.stalled_until)
            ts.append(base)
        return min(ts) if ts else None

    def _choose(self, me):
        """Pick the next thread to run.  `me` may or may not be ready itself."""
        while True:
            ready = self._ready_list()
            if ready:
                break
            t = self._next_wakeup()
            if t is None:
                raise SimDeadlock(self._describe())
            self.now = max(self.now, t)
            self.probe('clock_jump_to_deadline')
            self._check_budget()
        if len(ready) == 1:
            return ready[0]
        default = me if me in ready else ready[0]
        idx = self.n_choice
        self.n_choice += 1
        if self.replay:
            tid = self._dec_in.get(idx)
            chosen = default
            if tid is not None:
                for st in ready:
                    if st.tid == tid:
                        chosen = st
                        break
        else:
            chosen = default
            fair = (self.fair_after is not None and self.steps - self.op_steps0 > self.fair_after)
            if fair:
                # round robin: next tid after the current one
                later = [st for st in ready if st.tid > me.tid]
                chosen = later[0] if later else ready[0]
            elif self.rng.random() < (self.p_line if self._cur_label == 'line' else self.p_switch):
                others = [st for st in ready if st is not default]
                chosen = others[self.rng.randrange(len(others))]
        if chosen is not default:
            self.decisions.append([idx, chosen.tid])
        return chosen

    def _describe(self):
        return '; '.join(f'{st.tid}:{st.name}:{st.state}:{st.block_label}' for st in self.threads)

    def _check_budget(self):
        if self.op_step_limit is not None and self.steps - self.op_steps0 > self.op_step_limit:
            raise SimHang(f'step budget exceeded: {self._describe()}')
        if self.op_time_limit is not None and self.now - self.op_time0 > self.op_time_limit:
            raise SimHang(f'virtual-time budget exceeded: {self._describe()}')

    def _transfer(self, me, nxt, label):
        """Hand the baton from `me` (the running thread) to `nxt` and wait to get it back."""
        self.switches += 1
        lab = label if isinstance(label, str) else 'other'
        self.probes['switch_at:' + lab] = self.probes.get('switch_at:' + lab, 0) + 1
        if len(self.log) < self.max_log:
            self.log.append((label if isinstance(label, str) else repr(label), me.tid, nxt.tid))
        self.current = nxt
        nxt.sem.release()
        self._wait_baton(me)

    def _wait_baton(self, me):
        me.sem.acquire()
        if self.abort and me is not self.main:
            raise SimAbort()
        if me.pending is not None:
            exc, me.pending = me.pending, None
            raise exc

    def _fail_to_main(self, me, exc):
        """Deliver a scheduler-level failure (deadlock / hang) to the main thread."""
        if me is self.main:
            raise exc
        self.main.pending = exc
        self.main.pred = None
        self.main.state = READY
        self.current = self.main
        self.main.sem.release()
        # park forever (until abort)
        me.sem.acquire()
        raise SimAbort()

    def yield_point(self, label):
        """A point at which another thread may be scheduled; the caller stays ready."""
        me = self.me()
        if self.abort:
            if me is not self.main:
                raise SimAbort()
            return
        assert me is self.current, f'baton violation: {me.name} runs but {self.current.name} holds the baton'
        self.steps += 1
        if self.kill_at and (self.kill_labels is None or label in self.kill_labels):
            n = self._sp_count[me.tid] = self._sp_count.get(me.tid, 0) + 1
            exc = self.kill_at.pop((me.tid, n), None)
            if exc is not None:
                self.probe('fault_fired:thread_kill')
                raise exc
        if self.on_switch_point is not None:
            self.on_switch_point(label)
        # virtual-time jitter: computation between two switch points took a while
        yi = self.n_yield
        self.n_yield += 1
        if self.replay:
            dt = self._jit_in.get(yi)
            if dt:
                self.now += dt
        elif self.p_jitter and self.rng.random() < self.p_jitter:
            dt = round(self.rng.choice((0.3, 0.7, 1.0, 1.5, 3.0)), 3)
            self.now += dt
            self.jitters.append([yi, dt])
        self._cur_label = label
        try:
            self._check_budget()
            nxt = self._choose(me)
        except (SimDeadlock, SimHang) as e:
            self._fail_to_main(me, e)
        if nxt is not me:
            self._transfer(me, nxt, label)

    def block(self, label, pred, timeout=None):
        """Block the caller until pred() holds (returns True) or the timeout expires (False)."""
        me = self.me()
        if self.abort:
            if me is not self.main:
                raise SimAbort()
            return pred()
        assert me is self.current
        if pred():
            return True
        if timeout is not None and timeout <= 0:
            return False
        me.pred = pred
        me.deadline = None if timeout is None else self.now + timeout
        me.state = BLOCKED
        me.block_label = label
        try:
            while True:
                self.steps += 1
                self._cur_label = label
                try:
                    self._check_budget()
                    nxt = self._choose(me)
                except (SimDeadlock, SimHang) as e:
                    me.state = READY
                    self._fail_to_main(me, e)
                if nxt is not me:
                    self._transfer(me, nxt, label)
                # we hold the baton: either pred holds or the deadline passed (or spurious)
                if pred():
                    return True
                if me.deadline is not None and me.deadline <= self.now:
                    return False
        finally:
            me.state = READY if me.state == BLOCKED else me.state
            me.pred = None
            me.deadline = None
            me.block_label = None

    def sleep(self, dt):
        """Virtual sleep of the calling thread."""
        self.block('sleep', lambda: False, timeout=dt)

    # ------------------------------------------------------------------ thread lifecycle
    def _bootstrap(self, st, target, args, kwargs):
        self._tls.st = st
        st.sem.acquire()  # wait for the baton for the first time
        try:
            if self.abort:
                return
            if self.trace_files:
                sys.settrace(self._tracer)
            try:
                target(*args, **kwargs)
            except SimAbort:
                return
            except BaseException as e:  # noqa: BLE001 - record, like threading.excepthook would
                st.exc = e
        finally:
            sys.settrace(None)
            st.state = DONE
            if not self.abort:
                try:
                    nxt = self._choose(st)
                    self.current = nxt
                    nxt.sem.release()
                except (SimDeadlock, SimHang) as e:
                    self.main.pending = e
                    self.main.state = READY
                    self.main.pred = None
                    self.current = self.main
                    self.main.sem.release()

    def _tracer(self, frame, event, arg):
        if event != 'call':
            return None
        fn = frame.f_code.co_filename
        for tf in self.trace_files:
            if fn.endswith(tf):
                return self._line_tracer
        return None

    def _line_tracer(self, frame, event, arg):
        if event == 'line' and not self.abort:
            st = getattr(self._tls, 'st', None)
            if st is not None and st is self.current:
                self.yield_point('line')
        return self._line_tracer

    def enable_main_tracing(self):
        if self.trace_files:
            sys.settrace(self._tracer)

    def disable_main_tracing(self):
        sys.settrace(None)

    def shutdown(self):
        """End of run: unwind every parked thread.  Returns names of threads that leaked (harness error)."""
        self.abort = True
        sys.settrace(None)
        leaked = []
        for st in self.threads[1:]:
            if st.state in (READY, BLOCKED) or (st.real is not None and st.real.is_alive()):
                st.sem.release()
        for st in self.threads[1:]:
            if st.real is not None:
                st.real.join(timeout=10.0)
                if st.real.is_alive():
                    leaked.append(st.name)
        return leaked

    def alive_threads(self):
        return [st.name for st in self.threads[1:] if st.state in (READY, BLOCKED)]

    # ------------------------------------------------------------------ the two module stand-ins
    def modules(self):
        sched = self

        class Queue:
            def __init__(self, maxsize=0):
                self.maxsize = maxsize
                self.items = []
                self.unfinished = 0

            def qsize(self):
                sched.yield_point('q.qsize')
                return len(self.items)

            def empty(self):
                sched.yield_point('q.empty')
                return not self.items

            def full(self):
                sched.yield_point('q.full')
                return 0 < self.maxsize <= len(self.items)

            def _has_room(self):
                return self.maxsize <= 0 or len(self.items) < self.maxsize

            def put(self, item, block=True, timeout=None):
                sched.yield_point('q.put')
                if not self._has_room():
                    if not block:
                        raise _real_queue.Full
                    sched.probe('put_blocked_on_full_queue')
                    if not sched.block('q.put.wait', self._has_room, timeout):
                        sched.probe('put_timed_out')
                        raise _real_queue.Full
                self.items.append(item)
                self.unfinished += 1

            def put_nowait(self, item):
                return self.put(item, block=False)

            def get(self, block=True, timeout=None):
                sched.yield_point('q.get')
                if not self.items:
                    if not block:
                        raise _real_queue.Empty
                    if not sched.block('q.get.wait', lambda: bool(self.items), timeout):
                        sched.probe('get_timed_out')
                        raise _real_queue.Empty
                return self.items.pop(0)

            def get_nowait(self):
                return self.get(block=False)

            def task_done(self):
                sched.yield_point('q.task_done')
                if self.unfinished <= 0:
                    raise ValueError('task_done() called too many times')
                self.unfinished -= 1

            def join(self):
                sched.yield_point('q.join')
                if self.unfinished:
                    sched.probe('join_blocked')
                sched.block('q.join.wait', lambda: self.unfinished == 0)

        class Event:
            def __init__(self):
                self._flag = False

            def is_set(self):
                sched.yield_point('ev.is_set')
                return self._flag

            def set(self):
                sched.yield_point('ev.set')
                self._flag = True

            def clear(self):
                sched.yield_point('ev.clear')
                self._flag = False

            def wait(self, timeout=None):
                sched.yield_point('ev.wait')
                return sched.block('ev.wait.wait', lambda: self._flag, timeout)

        class Thread:
            def __init__(self, group=None, target=None, name=None, args=(), kwargs=None, *, daemon=None):
                self._target = target
                self._args = args
                self._kwargs = kwargs or {}
                self._st = sched._new_thread(name or f'sim-thread-{len(sched.threads)}')
                self.name = self._st.name
                self.daemon = bool(daemon)

            def run(self):
                if self._target is not None:
                    self._target(*self._args, **self._kwargs)

            def start(self):
                st = self._st
                if st.state != NEW:
                    raise RuntimeError('threads can only be started once')
                st.real = _real_threading.Thread(target=sched._bootstrap, args=(st, self.run, (), {}),
                                                 name='simthread-' + st.name, daemon=True)
                st.state = READY
                st.real.start()
                sched.yield_point('th.start')

            def is_alive(self):
                sched.yield_point('th.is_alive')
                return self._st.state in (READY, BLOCKED)

            def join(self, timeout=None):
                sched.yield_point('th.join')
                st = self._st
                if st.state == NEW:
                    raise RuntimeError('cannot join thread before it is started')
                sched.block('th.join.wait', lambda: st.state == DONE, timeout)

        qmod = types.SimpleNamespace(Queue=Queue, Empty=_real_queue.Empty, Full=_real_queue.Full)
        tmod = types.SimpleNamespace(Thread=Thread, Event=Event)
        return qmod, tmod
