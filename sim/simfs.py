"""In-memory file system with an operation log and a process-kill crash model.

Everything tenpy's simulation layer does to files goes through this module once the seams are
installed (see :func:`install`):

  tenpy.simulations.simulation.Path            -> SimPath
  tenpy.tools.hdf5_io.open / .gzip / .h5py     -> sim_open / gzip proxy / h5py proxy

Crash model = process kill: every raw write that returned is on "disk"; user-space buffers
(io.BufferedWriter, GzipFile, libhdf5 caches) are lost.  At the crash point the current raw op is
applied partially (torn prefix of a write), the file system is frozen (every later mutating op is
dropped silently, because the `with`/`finally` blocks that still run in the unwinding Python
process would not run in a killed one) and SimCrash unwinds the stack.
"""

import errno
import gzip as real_gzip
import io
import posixpath
from pathlib import PurePosixPath

try:
    import h5py as real_h5py
except ImportError:  # pragma: no cover
    real_h5py = None


class SimCrash(BaseException):
    """The simulated process was killed."""


class SimFS:
    def __init__(self):
        self.files = {}  # path -> bytearray
        self.oplog = []  # mutating ops in order
        self.frozen = False
        self.crashed_at = None  # index into oplog-space (number of mutating ops fully applied before)
        self.n_mut = 0  # number of mutating ops issued so far
        self.crash_at = None  # crash when the op with this index is issued
        self.crash_tear = None  # fraction (0..1) of a write op to apply at the crash
        self.crash_fired = None
        self.error_at = {}  # op index -> errno : raise OSError instead of performing the op
        self.errors_fired = []
        self.diskfull_at = None  # op index of the write at which the disk becomes full
        self.diskfull_frac = 0.5  # fraction of that write which still fits (a *short write*, no error yet)
        self.full = False  # once full, every further write raises ENOSPC (create / rename / unlink still work)
        self.epoch = 0  # incremented per simulated process: file objects of a dead process cannot write anymore
        self.on_op = None  # callback(index, op) before the op is applied (markers, SIGINT delivery)
        self.record = True
        self.bytes_written = 0

    # ------------------------------------------------------------------ core
    def _mutate(self, op, short_ok=False):
        """op = (kind, path, ...).  Returns number of bytes written for writes."""
        if self.frozen:
            return len(op[3]) if op[0] == 'write' else None
        idx = self.n_mut
        self.n_mut += 1
        if self.on_op is not None:
            self.on_op(idx, op)
        if op[0] == 'write':
            if self.full:
                self.errors_fired.append([idx, errno.ENOSPC, 'write(disk full)'])
                raise OSError(errno.ENOSPC, 'injected: No space left on device')
            if self.diskfull_at is not None and idx >= self.diskfull_at:
                self.full = True
                n = int(len(op[3]) * self.diskfull_frac) if short_ok else 0
                self.errors_fired.append([idx, errno.ENOSPC, 'short write %d/%d' % (n, len(op[3]))])
                if n <= 0:
                    raise OSError(errno.ENOSPC, 'injected: No space left on device')
                # POSIX short write: the prefix that still fits is written and its length returned, no error
                short = ('write', op[1], op[2], bytes(op[3][:n]))
                self._apply(short)
                if self.record:
                    self.oplog.append(short)
                return n
        err = self.error_at.pop(idx, None)
        if err is not None:
            self.errors_fired.append([idx, err, op[0]])
            raise OSError(err, 'injected: ' + errno.errorcode.get(err, str(err)))
        if self.crash_at is not None and idx == self.crash_at:
            if op[0] == 'write' and self.crash_tear is not None:
                n = int(len(op[3]) * self.crash_tear)
                n = min(max(n, 0), len(op[3]))
                if n > 0:
                    torn = ('write', op[1], op[2], bytes(op[3][:n]))
                    self._apply(torn)
                    if self.record:
                        self.oplog.append(torn)
            self.frozen = True
            self.crashed_at = idx
            self.crash_fired = [idx, op[0], op[1]]
            raise SimCrash(f'kill at fs op {idx} ({op[0]} {op[1]})')
        self._apply(op)
        if self.record:
            self.oplog.append(op if op[0] != 'write' else ('write', op[1], op[2], bytes(op[3])))
        return len(op[3]) if op[0] == 'write' else None

    def _apply(self, op):
        apply_op(self.files, op)
        if op[0] == 'write':
            self.bytes_written += len(op[3])

    # ------------------------------------------------------------------ queries
    def exists(self, path):
        return path in self.files

    def snapshot(self):
        return {p: bytes(b) for p, b in self.files.items()}


def apply_op(files, op):
    kind = op[0]
    if kind == 'create':
        files[op[1]] = bytearray()
    elif kind == 'write':
        _, path, off, data = op
        buf = files.get(path)
        if buf is None:
            return  # write to an unlinked file: data goes nowhere visible
        if off > len(buf):
            buf.extend(b'\0' * (off - len(buf)))
        buf[off:off + len(data)] = data
    elif kind == 'truncate':
        buf = files.get(op[1])
        if buf is not None:
            if op[2] < len(buf):
                del buf[op[2]:]
            else:
                buf.extend(b'\0' * (op[2] - len(buf)))
    elif kind == 'rename':
        files[op[2]] = files.pop(op[1])
    elif kind == 'unlink':
        del files[op[1]]
    elif kind == 'close':
        pass
    else:
        raise ValueError(op)


def image_at(oplog, k, torn=None):
    """File-system image after the first k ops of the log; optionally a torn prefix of write op k."""
    files = {}
    for op in oplog[:k]:
        apply_op(files, op)
    if torn is not None and k < len(oplog) and oplog[k][0] == 'write':
        _, path, off, data = oplog[k]
        apply_op(files, ('write', path, off, data[:torn]))
    return files


# ---------------------------------------------------------------------------------------------
# file objects

class SimRawFile(io.RawIOBase):
    """Unbuffered file over a SimFS inode.  Writes are the fault points."""

    def __init__(self, fs, path, mode):
        super().__init__()
        self.fs = fs
        self.path = path
        self._mode = mode
        self._pos = 0
        self._readable = 'r' in mode or '+' in mode
        self._writable = 'w' in mode or 'a' in mode or '+' in mode
        if 'w' in mode:
            fs._mutate(('create', path))
        elif 'a' in mode:
            if path not in fs.files and not fs.frozen:
                fs._mutate(('create', path))
            self._pos = len(fs.files.get(path, b''))
        else:
            if path not in fs.files:
                raise FileNotFoundError(errno.ENOENT, 'No such file (simfs)', path)
        # the open file keeps referring to its inode even if the name is renamed: track by object
        self._buf = fs.files.get(path)
        self._epoch = fs.epoch
        self.name = path
        self.mode = mode
        # whether a short write may be reported to the caller: yes for files opened through open()/gzip (the
        # io / pickle layers above decide what to do with it), no under h5py's file-object driver, which
        # ignores the return value although the POSIX driver used in production retries
        self.short_ok = True

    def _current_path(self):
        # find the name currently bound to our inode (rename while open is legal)
        if self.fs.files.get(self.path) is self._buf:
            return self.path
        for p, b in self.fs.files.items():
            if b is self._buf:
                return p
        return self.path

    def readable(self):
        return self._readable

    def writable(self):
        return self._writable

    def seekable(self):
        return True

    def readinto(self, b):
        buf = self._buf if self._buf is not None else b''
        data = bytes(buf[self._pos:self._pos + len(b)])
        n = len(data)
        b[:n] = data
        self._pos += n
        return n

    def write(self, b):
        if not self._writable:
            raise io.UnsupportedOperation('not writable')
        data = bytes(b)
        if not data:
            return 0
        if self._epoch != self.fs.epoch:
            return len(data)  # a left-over file object of an earlier (dead) simulated process, e.g. flushed by the GC
        if 'a' in self._mode and self._buf is not None:
            self._pos = len(self._buf)
        n = self.fs._mutate(('write', self._current_path(), self._pos, data), short_ok=self.short_ok)
        n = len(data) if n is None else n
        self._pos += n
        return n

    def seek(self, off, whence=0):
        size = len(self._buf) if self._buf is not None else 0
        if whence == 0:
            self._pos = off
        elif whence == 1:
            self._pos += off
        else:
            self._pos = size + off
        return self._pos

    def tell(self):
        return self._pos

    def truncate(self, size=None):
        if size is None:
            size = self._pos
        if self._epoch == self.fs.epoch:
            self.fs._mutate(('truncate', self._current_path(), size))
        return size

    def flush(self):
        pass

    def close(self):
        if not self.closed:
            try:
                if self._writable and self._epoch == self.fs.epoch:
                    self.fs._mutate(('close', self._current_path()))
            finally:
                super().close()


class _Ctx:
    """Currently installed file system (module level, one simulated world at a time)."""
    fs = None
    clock = None


def sim_open(filename, mode='r', *args, **kwargs):
    fs = _Ctx.fs
    path = norm(filename)
    binary = 'b' in mode
    raw = SimRawFile(fs, path, mode.replace('b', '').replace('t', ''))
    buffering = kwargs.get('buffering', args[0] if args else -1)
    if buffering == 0:
        if not binary:
            raise ValueError("can't have unbuffered text I/O")
        return raw
    if 'r' in mode and '+' not in mode:
        f = io.BufferedReader(raw)
    elif '+' in mode:
        f = io.BufferedRandom(raw)
    else:
        f = io.BufferedWriter(raw)
    if not binary:
        f = io.TextIOWrapper(f, encoding=kwargs.get('encoding', 'utf-8'))
    return f


def norm(p):
    return posixpath.normpath(str(p))


class SimPath(PurePosixPath):
    """Stand-in for pathlib.Path over the installed SimFS (only what tenpy's simulations use)."""

    def exists(self):
        _deliver('path.exists')
        return _Ctx.fs.exists(norm(self))

    def is_file(self):
        return _Ctx.fs.exists(norm(self))

    def unlink(self, missing_ok=False):
        _deliver('path.unlink')
        p = norm(self)
        if not _Ctx.fs.exists(p):
            if missing_ok:
                return
            raise FileNotFoundError(errno.ENOENT, 'No such file (simfs)', p)
        _Ctx.fs._mutate(('unlink', p))
        _deliver('path.unlink.after')

    def rename(self, target):
        _deliver('path.rename')
        p, t = norm(self), norm(target)
        if not _Ctx.fs.exists(p):
            raise FileNotFoundError(errno.ENOENT, 'No such file (simfs)', p)
        _Ctx.fs._mutate(('rename', p, t))
        _deliver('path.rename.after')
        return SimPath(t)

    def replace(self, target):
        return self.rename(target)

    def open(self, mode='r', *args, **kwargs):
        _deliver('path.open')
        return sim_open(self, mode, *args, **kwargs)

    def absolute(self):
        return self

    def resolve(self):
        return self


def _deliver(where):
    cb = _Ctx.deliver
    if cb is not None:
        cb(where)


_Ctx.deliver = None


class _GzipProxy:
    def __getattr__(self, name):
        return getattr(real_gzip, name)

    @staticmethod
    def open(filename, mode='rb', compresslevel=9, **kw):
        f = sim_open(filename, mode if 'b' in mode else mode + 'b')
        mtime = _Ctx.clock.peek() if _Ctx.clock is not None else 0
        return _ClosingGzipFile(fileobj=f, mode=mode.replace('t', ''), compresslevel=compresslevel, mtime=mtime)


class _ClosingGzipFile(real_gzip.GzipFile):
    """GzipFile(fileobj=...) does not close the file object it was given; gzip.open(name) does."""

    def close(self):
        fobj = self.fileobj
        try:
            super().close()
        finally:
            if fobj is not None:
                fobj.close()


class _H5pyProxy:
    def __getattr__(self, name):
        return getattr(real_h5py, name)

    @staticmethod
    def File(filename, mode='r', **kw):
        fs = _Ctx.fs
        path = norm(filename)
        if mode in ('w', 'w-', 'x'):
            if mode != 'w' and fs.exists(path):
                raise FileExistsError(errno.EEXIST, 'File exists (simfs)', path)
            raw = SimRawFile(fs, path, 'w+')
            raw.short_ok = False
            return _H5File(raw, 'w', **kw)
        if mode == 'a':
            raw = SimRawFile(fs, path, 'r+' if fs.exists(path) else 'w+')
            raw.short_ok = False
            return _H5File(raw, 'a', **kw)
        if mode == 'r':
            raw = SimRawFile(fs, path, 'r')
            return _H5File(raw, 'r', **kw)
        if mode == 'r+':
            raw = SimRawFile(fs, path, 'r+')
            return _H5File(raw, 'r+', **kw)
        raise ValueError(mode)


if real_h5py is not None:
    class _H5File(real_h5py.File):
        """h5py.File on a SimRawFile through h5py's file-object driver; closes the raw file too."""

        def __init__(self, raw, mode, **kw):
            self._sim_raw = raw
            super().__init__(raw, mode, **kw)

        def close(self):
            try:
                super().close()
            finally:
                raw = getattr(self, '_sim_raw', None)
                if raw is not None and not raw.closed:
                    raw.close()


class Installed:
    """Context manager: install fs / clock seams into tenpy, restore on exit."""

    def __init__(self, fs, clock=None, deliver=None):
        self.fs = fs
        self.clock = clock
        self.deliver = deliver
        self._saved = []

    def _set(self, mod, name, val):
        missing = object()
        old = mod.__dict__.get(name, missing)
        self._saved.append((mod, name, old, missing))
        setattr(mod, name, val)

    def __enter__(self):
        import tenpy.simulations.simulation as sim_mod
        import tenpy.simulations.ground_state_search as gs_mod
        import tenpy.tools.hdf5_io as h5mod
        self._prev_ctx = (_Ctx.fs, _Ctx.clock, _Ctx.deliver)
        _Ctx.fs = self.fs
        _Ctx.clock = self.clock
        _Ctx.deliver = self.deliver
        self._set(sim_mod, 'Path', SimPath)
        self._set(gs_mod, 'Path', SimPath)
        self._set(h5mod, 'open', sim_open)
        self._set(h5mod, 'gzip', _GzipProxy())
        self._set(h5mod, 'h5py', _H5pyProxy())
        if self.deliver is not None:
            # Signal delivery points *inside* an HDF5 save: the saver recurses over the results in Python and
            # makes one h5py call per object, so a signal handler can run between any two of them (with pickle
            # the whole dump is a single C call).  Class attribute rebound from outside, restored on exit.
            orig_save = h5mod.Hdf5Saver.save

            def save_with_delivery_point(saver, obj, path='/'):
                _deliver('h5.save_object')
                return orig_save(saver, obj, path)

            self._set(h5mod.Hdf5Saver, 'save', save_with_delivery_point)
        if self.clock is not None:
            import tenpy.algorithms.algorithm as m1
            import tenpy.algorithms.dmrg as m2
            import tenpy.algorithms.mps_common as m3
            import tenpy.algorithms.tebd as m4
            mods = [sim_mod, m1, m2, m3, m4]
            try:
                import tenpy.algorithms.vumps as m5
                mods.append(m5)
            except ImportError:
                pass
            for m in mods:
                if 'time' in m.__dict__:
                    self._set(m, 'time', self.clock)
        return self

    def __exit__(self, *exc):
        for mod, name, old, missing in reversed(self._saved):
            if old is missing:
                try:
                    delattr(mod, name)
                except AttributeError:
                    pass
            else:
                setattr(mod, name, old)
        self._saved = []
        _Ctx.fs, _Ctx.clock, _Ctx.deliver = self._prev_ctx
        return False


class LoadOnly:
    """Light-weight variant of :class:`Installed` for reading one image through the real loader:
    only the three file seams of tenpy.tools.hdf5_io are rebound."""

    def __init__(self, fs):
        self.fs = fs

    def __enter__(self):
        import tenpy.tools.hdf5_io as h5mod
        self._mod = h5mod
        d = h5mod.__dict__
        self._saved = (d.get('open', _MISSING), d.get('gzip'), d.get('h5py'), _Ctx.fs, _Ctx.clock, _Ctx.deliver)
        h5mod.open = sim_open
        h5mod.gzip = _GZIP
        h5mod.h5py = _H5PY
        _Ctx.fs, _Ctx.clock, _Ctx.deliver = self.fs, None, None
        return self

    def __exit__(self, *exc):
        h5mod = self._mod
        o, g, h, fs, clock, deliver = self._saved
        if o is _MISSING:
            try:
                del h5mod.open
            except AttributeError:
                pass
        else:
            h5mod.open = o
        h5mod.gzip = g
        h5mod.h5py = h
        _Ctx.fs, _Ctx.clock, _Ctx.deliver = fs, clock, deliver
        return False


_MISSING = object()
_GZIP = _GzipProxy()
_H5PY = _H5pyProxy()
