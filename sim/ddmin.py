"""Plan minimisation: delta debugging over the operation / fault / decision lists of a plan."""

import copy


def ddmin_list(items, still_fails, max_tests=400):
    """Classic ddmin on a list; still_fails(candidate_list) -> bool.  Returns a 1-minimal-ish list."""
    tests = [0]

    def test(c):
        tests[0] += 1
        return still_fails(c)

    n = 2
    items = list(items)
    while len(items) >= 1 and tests[0] < max_tests:
        chunk = max(1, len(items) // n)
        reduced = False
        # try removing each chunk
        i = 0
        while i < len(items) and tests[0] < max_tests:
            cand = items[:i] + items[i + chunk:]
            if len(cand) < len(items) and test(cand):
                items = cand
                n = max(n - 1, 2)
                reduced = True
            else:
                i += chunk
        if not reduced:
            if chunk == 1:
                break
            n = min(len(items), n * 2)
    return items


def minimise_plan(plan, fails, list_fields=('ops', 'faults', 'faults_at', 'kills', 'stalls'), simplifications=(), max_tests=600):
    """fails(plan) -> bool (same violation class).  Returns the smallest plan found."""
    best = copy.deepcopy(plan)
    budget = [max_tests]

    def run(p):
        if budget[0] <= 0:
            return False
        budget[0] -= 1
        return fails(p)

    changed = True
    rounds = 0
    while changed and rounds < 4 and budget[0] > 0:
        changed = False
        rounds += 1
        for field in list_fields:
            cur = best.get(field) or []
            if not cur:
                continue

            def sf(c, field=field):
                p = copy.deepcopy(best)
                p[field] = c
                return run(p)

            new = ddmin_list(cur, sf, max_tests=max(20, budget[0] // 2))
            if len(new) < len(cur):
                best[field] = new
                changed = True
        for simp in simplifications:
            p = simp(copy.deepcopy(best))
            if p is not None and p != best and run(p):
                best = p
                changed = True
    return best
