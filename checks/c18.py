"""C18 driver: crash-state sweep over recorded runs + live multi-fault histories with resume,
against real tenpy simulations on a simulated file system / clock / signal source."""

import argparse
import collections
import copy
import hashlib
import json
import os
import random
import subprocess
import sys
import time

import numpy as np

from sim import core, simfs
from checks import c18_world as W
from checks import c18_engine as E

PROP = 'C18'
N_CONFIGS = {'quick': 176, 'thorough': 4800}
HISTORIES_PER_CONFIG = {'quick': 5, 'thorough': 10}
WALL_CAP = {'quick': 130.0, 'thorough': 2700.0}


# ---------------------------------------------------------------------------------------------
# evaluation of one crash state (I1)

class StateEvaluator:
    def __init__(self, world, out_path, bak_path, ignore=()):
        self.world = world
        self.out = out_path
        self.bak = bak_path
        self.ignore = set(ignore)  # files (and the saves into them) that belong to another results file
        self.load_memo = {}
        self.n_loads = 0

    def index_saves(self):
        """by_sha: bytes of acknowledged complete files; by_content: every attempt whose content is known."""
        by_sha, by_content = {}, {}
        for i, s in enumerate(self.world.saves):
            if s['path'] in self.ignore:
                continue
            if s['completed'] and s['sha1'] is not None:
                by_sha.setdefault(s['sha1'], set()).add(i + 1)
            if s['content'] is not None:
                by_content.setdefault(s['content'], set()).add(i + 1)
        return by_sha, by_content

    def n_ack(self):
        """Number (1-based index) of the last acknowledged complete save; 0 if none."""
        n = 0
        for i, s in enumerate(self.world.saves):
            if s['completed'] and s['path'] not in self.ignore:
                n = i + 1
        return n

    def n_ack_at(self, k):
        """The same for the prefix of the recorded run that ends before file-system op k."""
        n = 0
        for i, s in enumerate(self.world.saves):
            if s['completed'] and s['path'] not in self.ignore and s['marker'] <= k:
                n = i + 1
        return n

    def check_ground_state_file(self, files):
        """`exc` configurations: the ground-state results file that the simulation started from (and rewrites when
        it writes converged environments back) is a results file like any other: at every crash state the file or
        its backup must load as the original or as the rewritten content."""
        gs = getattr(self.world, '_gs', None)
        if gs is None:
            return None
        known = {s['content'] for s in self.world.saves if s['path'] == gs['path'] and s['content'] is not None}
        states = []
        for p in (gs['path'], gs['bak']):
            raw = files.get(p)
            if raw is None:
                states.append('absent')
                continue
            if hashlib.sha1(raw).hexdigest() == gs['sha1']:
                return None
            key = ('gs', hashlib.sha1(raw).hexdigest())
            if key not in self.load_memo:
                self.n_loads += 1
                try:
                    self.load_memo[key] = W.content_digest(self.world.load_bytes(p, bytes(raw)))
                except Exception:  # noqa: BLE001
                    self.load_memo[key] = None
            if self.load_memo[key] is not None and self.load_memo[key] in known:
                return None
            states.append('partial' if self.load_memo[key] is None else 'loads_unknown')
        return (f'the ground-state results file {gs["path"]} that the simulation rewrites (write-back of converged '
                f'environments) is {states[0]} and its backup {gs["bak"]} is {states[1]}: no complete ground-state '
                f'file remains')

    def classify(self, raw, by_sha, by_content, path):
        """-> ('absent',) | ('partial',) | ('complete', set_of_checkpoint_numbers) | ('loads_unknown',)"""
        if raw is None:
            return ('absent',)
        sha = hashlib.sha1(raw).hexdigest()
        if sha in by_sha:
            return ('complete', by_sha[sha])
        key = (path.rsplit('.', 1)[-1], sha)
        if key not in self.load_memo:
            self.n_loads += 1
            try:
                data = self.world.load_bytes(path, raw)
                c = W.content_digest(data)
                self.load_memo[key] = ('loads', c)
            except Exception:  # noqa: BLE001
                self.load_memo[key] = ('fails', None)
        st, c = self.load_memo[key]
        if st == 'fails' or c is None:
            return ('partial',)
        if c in by_content:
            return ('complete', by_content[c])
        return ('loads_unknown',)

    def check(self, files, n_done, by_sha=None, by_content=None):
        """I1 at a crash state.  Returns (ok, state_class, detail)."""
        if by_sha is None:
            by_sha, by_content = self.index_saves()
        co = self.classify(files.get(self.out), by_sha, by_content, self.out)
        cb = self.classify(files.get(self.bak), by_sha, by_content, self.bak)
        cls = (co[0], cb[0])
        # I1b: a file that is not a complete checkpoint must not load as if it were one (silent corruption:
        # the user's recovery would resume from it)
        for name, c in (('output', co), ('backup', cb)):
            if c[0] == 'loads_unknown':
                return False, cls, (f'the {name} file loads without error as a results dictionary, but its content '
                                    f'is that of no save that was ever attempted (partial / corrupt file accepted '
                                    f'by the loader)')
        if n_done < 1:
            return True, cls, None
        for c in (co, cb):
            # previous (= last acknowledged) or a newer checkpoint
            if c[0] == 'complete' and max(c[1]) >= n_done:
                return True, cls, None
        # The property asks for a complete results file on disk, not for a particular name: a save protocol that
        # keeps the complete file under a third name for a while (temporary file + rotation) also satisfies it.
        ext = '.' + self.out.rsplit('.', 1)[-1]
        for p in sorted(files):
            if p in (self.out, self.bak) or not p.endswith(ext) or p in self.ignore:
                continue
            c = self.classify(files.get(p), by_sha, by_content, p)
            if c[0] == 'complete' and max(c[1]) >= n_done:
                self.world.probe('complete_file_under_another_name')
                return True, cls, None
        have = [sorted(c[1]) if c[0] == 'complete' else c[0] for c in (co, cb)]
        return False, cls, (f'after {n_done} completed save(s): output={have[0]} backup={have[1]}; no complete file '
                            f'from checkpoint {n_done} or {n_done + 1} remains')


def run_digests(world):
    """(exact, semantic) digests of a recorded run: exact includes the bytes written (equal only under the same
    PYTHONHASHSEED: pickled sets inside the results iterate in hash order); semantic = sequence of non-write
    ops plus the content digests of the completed saves."""
    exact = core.digest([[op[0], op[1], op[2] if len(op) > 2 and not isinstance(op[2], bytes) else None,
                          hashlib.sha1(op[3]).hexdigest() if op[0] == 'write' else None] for op in world.fs.oplog])
    sem = core.digest([[[op[0], op[1]] + ([op[2]] if op[0] == 'rename' else []) for op in world.fs.oplog
                        if op[0] in ('create', 'rename', 'unlink')],
                       [s['content'] for s in world.saves]])
    return exact, sem


def paths_for(cfg):
    stem = cfg.get('out_stem', 'results')
    out = stem + cfg['ext']
    bak = stem + '.backup' + cfg['ext']
    return out, bak


# ---------------------------------------------------------------------------------------------
# reference (fault-free) run and the sweep over its crash states

def gs_paths(cfg):
    g = W.gs_file(cfg)
    return g, g[:-len(cfg['ext'])] + '.backup' + cfg['ext']


def make_evaluator(world, cfg):
    out_p, bak_p = paths_for(cfg)
    return StateEvaluator(world, out_p, bak_p, ignore=gs_paths(cfg) if cfg['family'] == 'exc' else ())


def new_world(cfg, ref_bytes=None):
    world = W.World(cfg)
    if cfg['family'] == 'exc' and ref_bytes is not None:
        g, gb = gs_paths(cfg)
        world.fs.files[g] = bytearray(ref_bytes)
        world._gs = {'path': g, 'bak': gb, 'sha1': hashlib.sha1(ref_bytes).hexdigest()}
        return world
    if cfg['preexisting_output'] and ref_bytes is not None:
        out, _ = paths_for(cfg)
        world.fs.files[out] = bytearray(ref_bytes)
        try:
            content = W.content_digest(world.load_bytes(out, ref_bytes))
        except Exception:  # noqa: BLE001
            content = None
        world.saves.append({'marker': 0, 'path': out, 'sha1': hashlib.sha1(ref_bytes).hexdigest(),
                            'content': content, 'segment': -1, 'size': len(ref_bytes),
                            'completed': content is not None})
    return world


def reference_run(cfg):
    """Fault-free run.  For `preexisting_output` configs an earlier complete results file is put in place
    first (produced by a plain run of the same configuration)."""
    params = W.build_params(cfg)
    pre = None
    if cfg['family'] == 'exc':
        cfg0 = dict(cfg, family='idmrg')
        w0 = W.World(cfg0)
        o0 = w0.run_segment(('fresh', W.build_gs_params(cfg)), clock_seed=core.sub_seed(cfg['seed'], 'clock-pre'))
        if o0['outcome'] != 'finished':
            return None, o0, None
        pre = bytes(w0.fs.files[W.gs_file(cfg)])
    if cfg['preexisting_output']:
        cfg0 = dict(cfg, preexisting_output=False)
        w0 = W.World(cfg0)
        o0 = w0.run_segment(('fresh', W.build_params(cfg0)), clock_seed=core.sub_seed(cfg['seed'], 'clock-pre'))
        if o0['outcome'] != 'finished':
            return None, o0, None
        pre = bytes(w0.fs.files[paths_for(cfg)[0]])
    world = new_world(cfg, pre)
    out = world.run_segment(('fresh', params), clock_seed=core.sub_seed(cfg['seed'], 'clock0'))
    return world, out, pre


def neighbour_state(cfg, save_markers):
    """Files left by the other simulation in the directory (same configuration, output name neighbour_stem()):
    the real code ran in a world of its own and was killed inside a later save, so that its last complete
    checkpoint is what its resume depends on.  Returns {'files': {path: bytes}, 'complete': {path: sha1}} or None."""
    if not cfg.get('neighbour') or len(save_markers) < 2:
        return None
    nb_cfg = dict(cfg, preexisting_output=False, neighbour=False, skip_if_output_exists=False)
    params = W.build_params(nb_cfg, out_name=W.neighbour_stem(cfg.get('out_stem', 'results')))
    base = save_markers[min(1, len(save_markers) - 2)]  # inside the save after the first or second completed one
    best = None
    for k in (2, 3, 1, 4):
        w = W.World(nb_cfg)
        w.fs.record = False
        o = w.run_segment(('fresh', params), {'kind': 'kill', 'at_op': base + k, 'tear': 0.5},
                          clock_seed=core.sub_seed(cfg['seed'], 'clock0'))
        if o['outcome'] != 'killed':
            continue
        files = {p: bytes(b) for p, b in w.fs.files.items()}
        complete = {}
        for p, raw in files.items():
            try:
                data = w.load_bytes(p, raw)
            except Exception:  # noqa: BLE001
                continue
            if isinstance(data, dict) and 'simulation_parameters' in data and 'finished_run' in data:
                complete[p] = hashlib.sha1(raw).hexdigest()
        if not complete:
            continue
        st = {'files': files, 'complete': complete}
        if len(complete) == 1 and len(files) > 1:
            return st  # the vulnerable state: one complete checkpoint next to a partial file
        best = best or st
    return best


def neighbour_untouched(nb, files):
    """Paths of the neighbour's files that still hold the neighbour's bytes."""
    return {p for p, raw in nb['files'].items() if p in files and bytes(files[p]) == raw}


def sweep(world, cfg, tier, rng, stats):
    """Evaluate I1 on crash states reconstructed from the op log of the fault-free run."""
    out_p, bak_p = paths_for(cfg)
    ev = make_evaluator(world, cfg)
    by_sha, by_content = ev.index_saves()
    oplog = world.fs.oplog
    markers = [s['marker'] for s in world.saves if s['completed']]
    base_saves = sum(1 for s in world.saves if s['segment'] < 0)  # pre-existing file
    files = {}
    if getattr(world, '_gs', None):
        files[world._gs['path']] = bytearray(world._pre_bytes)
    if base_saves:
        s0 = world.saves[0]
        # the pre-existing file was put in place without log entries
        files[s0['path']] = bytearray(world._pre_bytes)
    n_ops = len(oplog)
    is_h5 = cfg['ext'] == '.h5'
    # which op boundaries to evaluate
    if is_h5 and tier == 'quick':
        # all boundaries of non-write ops, all boundaries of one whole save, a sample of the rest
        pick = set(i for i, op in enumerate(oplog) if op[0] != 'write')
        pick.update(i + 1 for i in list(pick))
        if len(markers) > base_saves + 1:
            lo, hi = markers[base_saves], markers[base_saves + 1]
            pick.update(range(lo, min(hi + 1, n_ops + 1)))
        pick.update(rng.sample(range(n_ops + 1), min(n_ops + 1, 300)))
    else:
        pick = set(range(n_ops + 1))
    violations = []
    for k in range(n_ops + 1):
        n_done = ev.n_ack_at(k)
        if k in pick:
            ok, cls, detail = ev.check(files, n_done, by_sha, by_content)
            gs_bad = ev.check_ground_state_file(files)
            if ok and gs_bad:
                ok, cls, detail = False, ('ground_state_file',) + tuple(cls), gs_bad
            stats['sweep_states'] += 1
            stats['state_classes'][cls] += 1
            stats['distinct'].add(core.h64(('sweep', cfg['ext'], cls, oplog[k][0] if k < n_ops else 'end',
                                            min(n_done, 3), len(files.get(out_p, b'')) // 256)))
            if not ok:
                violations.append({'k': k, 'torn': None, 'detail': detail, 'state_class': cls, 'n_done': n_done})
        if k == n_ops:
            break
        op = oplog[k]
        # torn variants of this write
        if op[0] == 'write' and (k in pick or not is_h5):
            n = len(op[3])
            if n > 1:
                if tier == 'thorough' and not is_h5:
                    tears = range(1, n)
                elif is_h5:
                    tears = sorted(set(rng.sample(range(1, n), min(n - 1, 2 if tier == 'quick' else 6))))
                else:
                    tears = sorted(set(rng.sample(range(1, n), min(n - 1, 40))) | {1, n - 1, n // 2})
                buf = files.get(op[1])
                if buf is not None:
                    for t in tears:
                        torn_buf = bytearray(buf)
                        off = op[2]
                        if off > len(torn_buf):
                            torn_buf.extend(b'\0' * (off - len(torn_buf)))
                        torn_buf[off:off + t] = op[3][:t]
                        f2 = dict(files)
                        f2[op[1]] = torn_buf
                        ok, cls, detail = ev.check(f2, n_done, by_sha, by_content)
                        gs_bad = ev.check_ground_state_file(f2)
                        if ok and gs_bad:
                            ok, cls, detail = False, ('ground_state_file',) + tuple(cls), gs_bad
                        stats['sweep_states'] += 1
                        stats['torn_states'] += 1
                        stats['state_classes'][cls] += 1
                        if not ok:
                            violations.append({'k': k, 'torn': t / n, 'detail': detail, 'state_class': cls,
                                               'n_done': n_done})
        simfs.apply_op(files, op)
    stats['real_loads_of_partial_images'] += ev.n_loads
    return violations


# ---------------------------------------------------------------------------------------------
# live histories

def gen_history(cfg, ref, rng):
    """Draw a fault plan: one fault per segment, up to three segments with faults."""
    n_faults = rng.choice([1, 1, 2, 2, 2, 3, 3])  # multi-fault histories reach state carried across *two* resumes
    faults = []
    markers = ref.get('save_markers') or []
    if len(markers) >= 3 and rng.random() < 0.2:
        # scenario "the job is stopped twice between saves" (e.g. it hits its wall-time limit twice): a clean kill
        # right after a completed save, resume, a few more saves by the resumed run, another clean kill, resume.
        # This is the history that exposes state carried from one resume to the next (environments, counters).
        ops_per_save_ = max(2, (markers[-1] - markers[0]) // max(1, len(markers) - 1))
        first = rng.choice(markers[:-2])
        second = ops_per_save_ * rng.choice([1, 1, 2, 3]) + rng.choice([0, 1])
        apis = [rng.choice(['filename', 'filename', 'checkpoint_results', 'from_saved_checkpoint']) for _ in range(3)]
        return {'cfg': cfg, 'faults': [{'kind': 'kill', 'at_op': first, 'tear': None},
                                       {'kind': 'kill', 'at_op': second, 'tear': None}],
                'clock_seed': rng.getrandbits(32), 'resume_api': apis, 'scenario': 'stopped_twice_between_saves',
                'ref_clock_reads': ref.get('clock_reads')}
    ops_total = max(ref['ops'], 2)
    ops_per_save = max(2, ops_total // max(1, ref['n_saves']))
    remaining = ops_total  # rough number of file-system ops the next segment still has to do
    for s in range(n_faults):
        r = rng.random()
        if r < 0.05:
            # SIGTERM at a signal-delivery point (default action: the process is gone there and then)
            faults.append({'kind': 'sigterm', 'at': [rng.randrange(1, max(2, ref['delivery_points']))]})
        elif r < 0.55:
            if s > 0 and rng.random() < 0.45:
                at = rng.randrange(0, ops_per_save + 2)  # inside the first save after the resume
            elif s == 0 and rng.random() < 0.8 and ref.get('first_save_done_at') is not None:
                # after the first completed save, so that there is a checkpoint to resume from
                at = rng.randrange(min(ref['first_save_done_at'], ops_total - 1), ops_total)
            else:
                # a resumed segment only has the rest of the work to do: keep the fault inside it, past its first save
                lo = 0 if s == 0 else min(ops_per_save, max(1, remaining - 1))
                at = rng.randrange(lo, max(lo + 1, remaining))
            tear = rng.choice([None, rng.random(), rng.random()])
            faults.append({'kind': 'kill', 'at_op': at, 'tear': tear})
            remaining = max(ops_per_save + 2, remaining - at + ops_per_save)
        elif r < 0.63:
            faults.append({'kind': 'sigint', 'at': [rng.randrange(1, max(2, ref['delivery_points']))]})
        elif r < 0.70:
            # graceful SIGINT, then the process dies inside the save it triggers
            faults.append({'kind': 'sigint_kill', 'at': [rng.randrange(1, max(2, ref['delivery_points']))],
                           'kill_after_ops': rng.randrange(0, ops_per_save + 1),
                           'tear': rng.choice([None, rng.random()])})
        elif r < 0.85:
            a = rng.randrange(1, max(2, ref['delivery_points']))
            b = a + (rng.randrange(1, 12) if rng.random() < 0.7 else rng.randrange(1, max(2, ref['delivery_points'])))
            faults.append({'kind': 'sigint', 'at': [a, b]})
        elif r < 0.93:
            at = rng.randrange(0, ops_total) if s == 0 else rng.randrange(0, ops_per_save + 2)
            faults.append({'kind': 'oserror', 'at_op': at, 'errno': rng.choice([28, 5])})
        else:
            # the disk fills up: a short write (a prefix still fits), then ENOSPC on every further write
            at = rng.randrange(0, ops_total) if s == 0 else rng.randrange(0, ops_per_save + 2)
            faults.append({'kind': 'diskfull', 'at_op': at, 'frac': rng.choice([0.0, 0.3, 0.9, 0.999])})
    # how the user resumes after the s-th crash: by file name (usual) or by loading the file himself
    apis = [rng.choice(['filename', 'filename', 'checkpoint_results', 'from_saved_checkpoint'])
            for _ in range(n_faults + 1)]
    return {'cfg': cfg, 'faults': faults, 'clock_seed': rng.getrandbits(32), 'resume_api': apis,
            'ref_clock_reads': ref.get('clock_reads')}


def tolerance_class(cfg):
    if cfg['family'] == 'idmrg':
        if cfg.get('max_hours') is not None and cfg['clock'] == 'jumpy':
            return 'none'
        # infinite DMRG: Lanczos tolerances and growth statistics restart on resume -> different trajectory
        return 'dmrg_weak'
    if cfg['family'].startswith('dmrg'):
        if cfg.get('max_hours') is not None and cfg['clock'] == 'jumpy':
            return 'none'  # shelving depends on the clock, which differs between the runs by design
        # the mixer is re-activated by every run() / resume_run() (documented behaviour of mixer_activate), so a
        # resumed run with mixer follows a different trajectory: weak form, like convergence-dependent sweeps
        return 'dmrg_fixed' if (cfg['fixed_sweeps'] and not cfg['mixer']) else 'dmrg_weak'
    return 'exact'


TOL = {  # absolute tolerances; calibrated as >=100x the largest deviation seen on the unchanged tree
    'exact': {'meas': 1e-9, 'energy': 1e-9, 'overlap': 1e-9},
    'dmrg_fixed': {'meas': 1e-9, 'energy': 1e-9, 'overlap': 1e-9},
    'dmrg_weak': {'meas': None, 'energy': 1e-5, 'overlap': 1e-3},
}


def compare_results(ref, res, cfg, stats=None):
    """I2: resumed == uninterrupted.  Returns None or (invariant, detail, facts)."""
    tc = tolerance_class(cfg)
    if not res.get('finished_run'):
        return ('resume.not_finished', 'final results have finished_run=False', {})
    if tc == 'none':
        return None
    tol = TOL[tc]
    rm, mm = ref.get('measurements', {}), res.get('measurements', {})
    if set(rm) != set(mm):
        return ('resume.measurement_keys', f'keys differ: {sorted(set(rm) ^ set(mm))}',
                {'keys': ','.join(sorted(set(rm) ^ set(mm)))})
    idx_ref = list(np.asarray(rm.get('measurement_index', [])))
    idx_res = list(np.asarray(mm.get('measurement_index', [])))
    if idx_res != list(range(len(idx_res))):
        return ('resume.measurement_index_not_gapfree', f'measurement_index={idx_res}', {'kind': 'index'})
    if tc != 'dmrg_weak':
        if len(idx_res) != len(idx_ref):
            kind = 'lost' if len(idx_res) < len(idx_ref) else 'duplicated'
            return ('resume.measurement_count', f'{len(idx_res)} measurements, uninterrupted run has {len(idx_ref)}',
                    {'kind': kind})
        for k in sorted(rm):
            try:
                a, b = np.asarray(rm[k]), np.asarray(mm[k])
                ragged = (a.dtype == object or b.dtype == object)
            except ValueError:
                ragged = True
            if ragged:
                # ragged lists or lists with None entries (a key that appeared late): compare entry by entry
                la, lb = list(rm[k]), list(mm[k])
                if len(la) != len(lb):
                    return ('resume.measurement_shape', f'{k}: {len(la)} vs {len(lb)} entries', {'key': k})
                for j, (x, y) in enumerate(zip(la, lb)):
                    if x is None or y is None:
                        if (x is None) != (y is None):
                            return ('resume.measurement_differs',
                                    f'{k}: entry {j} is {"None" if x is None else "a value"} in the uninterrupted '
                                    f'run and {"None" if y is None else "a value"} in the resumed run', {'key': k})
                        continue
                    try:
                        x, y = np.asarray(x, dtype=complex), np.asarray(y, dtype=complex)
                    except (TypeError, ValueError):
                        if repr(x) != repr(y):
                            return ('resume.measurement_differs', f'{k}: entry {j} differs', {'key': k})
                        continue
                    if x.shape != y.shape or (x.size and float(np.max(np.abs(x - y))) > tol['meas']):
                        return ('resume.measurement_differs', f'{k}: entry {j} differs', {'key': k})
                continue
            if a.shape != b.shape:
                return ('resume.measurement_shape', f'{k}: {a.shape} vs {b.shape}', {'key': k})
            if a.size == 0:
                continue
            d = float(np.max(np.abs(a - b)))
            if stats is not None:
                stats['max_dev'][tc + ':' + k] = max(stats['max_dev'].get(tc + ':' + k, 0.0), d)
            if d > tol['meas']:
                where = int(np.argmax(np.abs(a - b).reshape(len(a), -1).max(axis=1))) if a.ndim else 0
                return ('resume.measurement_differs',
                        f'{k}: max |diff| = {d:.3e} (first at measurement {where}); ref={a.ravel()[:6]} '
                        f'resumed={b.ravel()[:6]}', {'key': k})
    if tc == 'dmrg_weak' and cfg['family'] in ('dmrg1', 'dmrg2') and not cfg.get('mixer'):
        # finite DMRG without mixer, convergence-dependent sweep count: the energies of the resumed sweeps are those
        # of the uninterrupted run, only the statistics restart (the first Delta_E after a resume is NaN), so the
        # resumed search can need a sweep more than the uninterrupted one, never fewer.  (Not so for infinite DMRG,
        # whose energy estimate is built from the growth statistics: there the resumed run can converge a sweep
        # earlier on the unchanged tree - seen when this invariant was first tried for all families.)
        s0 = (ref.get('resume_data') or {}).get('sweeps')
        s1 = (res.get('resume_data') or {}).get('sweeps')
        if s0 is not None and s1 is not None and int(s1) < int(s0):
            return ('resume.fewer_sweeps', f'the resumed search stopped after {int(s1)} sweeps, the uninterrupted one '
                    f'needed {int(s0)} (converged prematurely?)', {})
    # every other top-level entry of the results (e.g. what post-processing adds: spectral functions) must be
    # there and, if numeric, equal
    skip = {'simulation_parameters', 'version_info', 'finished_run', 'measurements', 'psi', 'resume_data', 'energy',
            'sweep_stats', 'update_stats', 'errors_during_run', 'psi_ground_state', 'gs_energy'}
    for k in sorted(set(ref) - skip):
        if k not in res:
            return ('resume.results_entry_missing', f'results[{k!r}] of the uninterrupted run is missing', {'key': k})
        if tc == 'dmrg_weak':
            continue
        try:
            a, b = np.asarray(ref[k]), np.asarray(res[k])
        except ValueError:
            continue
        if a.dtype == object or b.dtype == object or a.dtype.kind in 'US':
            continue
        if a.shape != b.shape:
            return ('resume.results_entry_differs', f'results[{k!r}]: shape {a.shape} vs {b.shape}', {'key': k})
        if a.size and float(np.max(np.abs(a - b))) > tol['meas']:
            return ('resume.results_entry_differs', f'results[{k!r}]: max |diff| = '
                    f'{float(np.max(np.abs(a - b))):.3e}', {'key': k})
    if 'energy' in ref or 'energy' in res:
        if ('energy' in ref) != ('energy' in res):
            return ('resume.energy_missing', 'energy key missing', {})
        d = abs(ref['energy'] - res['energy'])
        if stats is not None:
            stats['max_dev'][tc + ':energy'] = max(stats['max_dev'].get(tc + ':energy', 0.0), float(d))
        if d > tol['energy']:
            return ('resume.energy_differs', f"|dE| = {d:.3e} (ref {ref['energy']!r}, resumed {res['energy']!r})",
                    {})
    p0, p1 = ref.get('psi'), res.get('psi')
    if p0 is not None and p1 is not None:
        # normalise by the self-overlaps: engines such as QR-based TEBD leave psi slightly non-canonical, so that
        # <psi|psi> computed through the transfer matrices is not exactly norm**2
        n0, n1 = abs(p0.overlap(p0)), abs(p1.overlap(p1))
        ov = abs(p0.overlap(p1)) / np.sqrt(n0 * n1)
        d = abs(1.0 - ov)
        if stats is not None:
            stats['max_dev'][tc + ':overlap'] = max(stats['max_dev'].get(tc + ':overlap', 0.0), float(d))
        if d > tol['overlap']:
            return ('resume.state_differs', f'1 - |<ref|resumed>| = {d:.3e}', {})
    return None


def recover(world, cfg, skip=()):
    """What a user does after a crash: load the output, else the backup.  Returns (filename, data) or None."""
    import tenpy.tools.hdf5_io as h5mod
    out_p, bak_p = paths_for(cfg)
    ext = '.' + out_p.rsplit('.', 1)[-1]
    others = sorted(p for p in world.fs.files if p not in (out_p, bak_p) and p.endswith(ext) and p not in skip)
    for p in [out_p, bak_p] + others:
        raw = world.fs.files.get(p)
        if raw is None:
            continue
        try:
            data = world.load_bytes(p, bytes(raw))
        except Exception:  # noqa: BLE001
            continue
        if isinstance(data, dict) and 'simulation_parameters' in data and 'finished_run' in data:
            return p, data
    return None


def run_history(plan, ref_results, pre_bytes, stats, nb=None):
    """Execute one live history.  Returns a violation dict or None."""
    cfg = plan['cfg']
    world = new_world(cfg, pre_bytes)
    world._pre_bytes = pre_bytes
    if nb is not None:
        # the other simulation's files are in the directory from the start
        for p, raw in nb['files'].items():
            world.fs.files.setdefault(p, bytearray(raw))
        stats['probes']['history_with_neighbour_simulation'] += 1

    def own_files():
        # what belongs to this simulation: everything except the neighbour's files as the neighbour left them
        if nb is None:
            return world.fs.files
        keep = neighbour_untouched(nb, world.fs.files)
        return {p: b for p, b in world.fs.files.items() if p not in keep}

    def neighbour_violation(facts):
        if nb is None:
            return None
        keep = neighbour_untouched(nb, world.fs.files)
        if any(p in keep for p in nb['complete']):
            return None
        gone = sorted(nb['complete'])
        f = dict(facts, out_stem=cfg.get('out_stem'), neighbour_files=sorted(nb['files']))
        return {'invariant': 'disk.neighbour_checkpoint_destroyed',
                'detail': f'a second simulation in the same directory (output {sorted(nb["files"])}) had been killed '
                          f'inside a save; its only complete checkpoint {gone} was removed or overwritten by this '
                          f'simulation: files now {sorted(world.fs.files)}', 'facts': f, 'trace': trace}
    world.fs.record = False  # the op log (with all bytes written) is only needed for the sweep of reference runs
    out_p, bak_p = paths_for(cfg)
    ev = make_evaluator(world, cfg)
    start = ('fresh', W.build_params(cfg))
    faults = list(plan['faults'])
    seg = 0
    trace = []
    final = None
    resume_info = {'resumed_from': None, 'both_files_at_resume': None, 'resume_api': None}
    max_segments = len(faults) + 2
    while True:
        fault = faults[seg] if seg < len(faults) else None
        # segment 0 runs on the reference run's clock, so that fault positions drawn from (or, for sweep
        # findings, recorded in) the reference execution land exactly where they point
        cs = core.sub_seed(cfg['seed'], 'clock0') if seg == 0 else core.sub_seed(plan['clock_seed'], f'seg{seg}')
        # I3, bounded liveness: a segment may read the clock at most 10x (+300) as often as the whole uninterrupted run
        budget = 10 * plan.get('ref_clock_reads', 0) + 300 if plan.get('ref_clock_reads') else None
        o = world.run_segment(start, fault, clock_seed=cs, max_clock_reads=budget)
        fired = None
        if fault is not None:
            if fault['kind'] == 'kill' and world.fs.crash_fired:
                fired = 'kill'
                world.fs.crash_fired = None
            elif fault['kind'] == 'oserror' and world.fs.errors_fired:
                fired = 'oserror'
                world.fs.errors_fired = []
            elif fault['kind'] == 'diskfull' and world.fs.errors_fired:
                fired = 'diskfull'
                world.fs.errors_fired = []
            elif fault['kind'] == 'sigterm' and world.sigterms_delivered:
                fired = 'sigterm'
                world.sigterms_delivered = 0
            elif fault['kind'] == 'sigint' and world.sigints_delivered:
                fired = 'sigint%d' % world.sigints_delivered
                world.sigints_delivered = 0
            elif fault['kind'] == 'sigint_kill' and world.sigints_delivered:
                fired = 'sigint+kill' if world.fs.crash_fired else 'sigint1'
                world.sigints_delivered = 0
                world.fs.crash_fired = None
        if fired:
            stats['faults_fired'][fired] += 1
        trace.append([seg, start[0], fault, fired, o['outcome'], o['error'] if isinstance(o['error'], (str, type(None)))
                      else o['error']['type']])
        if world.violations:
            v = world.violations[0]
            return {'invariant': v['invariant'], 'detail': v['detail'],
                    'facts': {'family': cfg['family'], 'ext': cfg['ext'], 'segment': seg,
                              'fault_kind': fault['kind'] if fault else None, 'fault_fired': fired}, 'trace': trace}
        n_done = ev.n_ack()
        facts = {'family': cfg['family'], 'ext': cfg['ext'], 'segment': seg, 'start': start[0],
                 'fault_kind': fault['kind'] if fault else None, 'fault_fired': fired, 'outcome': o['outcome'],
                 'faults_so_far': sum(1 for t in trace if t[3]),
                 'first_save_after_resume': (start[0] == 'resume' and not any(
                     sv['completed'] and sv['segment'] == world.segment for sv in world.saves))}
        facts.update(resume_info)
        if o['outcome'] == 'finished':
            final = o['results']
            if final is None:
                # run_simulation() / resume_from_checkpoint() are documented to return the results dictionary
                facts['simulation_class'] = W.ENGINES[cfg['family']][0]
                return {'invariant': 'resume.returned_no_results' if start[0] == 'resume' else 'run.returned_no_results',
                        'detail': f'{"resume_from_checkpoint" if start[0] == "resume" else "run_simulation"}() returned '
                                  f'None instead of the results dictionary', 'facts': facts, 'trace': trace}
            # the final file must be complete too
            ok, cls, detail = ev.check(own_files(), n_done)
            if not ok:
                inv = 'disk.partial_file_loads' if 'loads_unknown' in cls else 'disk.no_complete_file_after_finish'
                return {'invariant': inv, 'detail': detail, 'facts': facts, 'trace': trace}
            nv = neighbour_violation(facts)
            if nv is not None:
                return nv
            gs_bad = ev.check_ground_state_file(world.fs.files)
            if gs_bad:
                return {'invariant': 'disk.ground_state_file_destroyed', 'detail': gs_bad, 'facts': facts,
                        'trace': trace}
            if cfg['family'] == 'exc':
                return None  # nothing was resumed: nothing to compare
            break
        if o['outcome'] == 'no_progress':
            return {'invariant': 'resume.no_progress' if start[0] == 'resume' else 'run.no_progress',
                    'detail': f'the simulation did not finish within 10x the clock reads of the uninterrupted run '
                              f'({o["error"]})', 'facts': facts, 'trace': trace}
        if o['outcome'] == 'exception' and not (isinstance(o['error'], dict) and o['error'].get('injected')):
            err = o['error']
            facts.update({'exc_type': err['type'], 'exc_function': err['function'], 'exc_file': err['file'],
                          'mixer': cfg.get('mixer'), 'fixed_sweeps': cfg.get('fixed_sweeps')})
            inv = 'resume.raised' if start[0] == 'resume' else 'run.raised'
            return {'invariant': inv, 'detail': f"{err['type']} in {err['function']} ({err['file']}): {err['msg']}",
                    'facts': facts, 'trace': trace}
        # the process is gone (kill, KeyboardInterrupt, or it died with the injected OSError): I1
        nv = neighbour_violation(facts)
        if nv is not None:
            return nv
        gs_bad = ev.check_ground_state_file(world.fs.files)
        if gs_bad:
            return {'invariant': 'disk.ground_state_file_destroyed', 'detail': gs_bad, 'facts': facts, 'trace': trace}
        ok, cls, detail = ev.check(own_files(), n_done)
        stats['crash_state_classes'][cls] += 1
        stats['distinct'].add(core.h64(('live', cfg['family'], cfg['ext'], seg, fired, o['outcome'], cls,
                                        min(n_done, 4))))
        if seg > 0 and fired == 'kill':
            stats['probes']['crash_in_resumed_segment'] += 1
            if not any(sv['completed'] and sv['segment'] == world.segment for sv in world.saves):
                stats['probes']['crash_before_first_completed_save_after_resume'] += 1
        if not ok:
            facts.update({'state_class': list(cls), 'n_done': n_done})
            inv = 'disk.partial_file_loads' if 'loads_unknown' in cls else 'disk.no_complete_file'
            return {'invariant': inv, 'detail': detail, 'facts': facts, 'trace': trace}
        if seg + 1 >= max_segments:
            break
        if cfg['family'] == 'exc':
            # OrthogonalExcitations.resume_run_algorithm is a NotImplementedError('TODO'), as for VUMPS below
            stats['probes']['exc_history_ends_at_first_crash'] += 1
            return None
        if cfg['family'] == 'vumps':
            # vumps.py documents resume_run as NotImplementedError('TODO'): resuming is an explicitly
            # unsupported feature there, so only the file-consistency half (I1) is checked
            stats['probes']['vumps_history_ends_at_first_crash'] += 1
            return None
        rec = recover(world, cfg, skip=neighbour_untouched(nb, world.fs.files) if nb else ())
        if rec is None:
            stats['probes']['nothing_to_resume_from_yet'] += 1
            return None  # no checkpoint was ever completed: nothing is promised, nothing to resume
        fname, data = rec
        stats['probes']['recovered_from_' + ('output' if fname == out_p else ('backup' if fname == bak_p
                                                                              else 'other_file'))] += 1
        resume_info = {'resumed_from': 'output' if fname == out_p else ('backup' if fname == bak_p else 'other'),
                       'both_files_at_resume': (out_p in world.fs.files and bak_p in world.fs.files)}
        if data['finished_run']:
            final = data
            break
        api = 'filename'
        apis = plan.get('resume_api') or []
        if seg < len(apis):
            api = apis[seg]
        start = ('resume', fname, api)
        resume_info['resume_api'] = api
        stats['probes']['resumed_via_' + api] += 1
        stats['segments_resumed'] += 1
        seg += 1
    if final is None:
        return None
    stats['histories_compared'] += 1
    bad = compare_results(ref_results, final, cfg, stats)
    if bad is not None:
        inv, detail, f2 = bad
        facts = {'family': cfg['family'], 'ext': cfg['ext'], 'tolerance_class': tolerance_class(cfg),
                 'n_resumes': sum(1 for t in trace if t[1] == 'resume')}
        facts.update(f2)
        return {'invariant': inv, 'detail': detail, 'facts': facts, 'trace': trace}
    return None


# ---------------------------------------------------------------------------------------------
def new_stats():
    return {'configs': 0, 'sweep_states': 0, 'torn_states': 0, 'histories': 0, 'histories_compared': 0,
            'segments_resumed': 0, 'state_classes': collections.Counter(), 'crash_state_classes': collections.Counter(),
            'faults_fired': collections.Counter(), 'probes': collections.Counter(), 'distinct': set(),
            'real_loads_of_partial_images': 0, 'max_dev': {}, 'families': collections.Counter(),
            'formats': collections.Counter(), 'sim_seconds': 0.0, 'fs_ops': 0, 'selftest': {'twice': 0, 'mismatch': []},
            'ref_failed': [], 'samples': [], 'digests': []}


def run_config(item, ctx):
    """One unit of work: a configuration, its reference run, the sweep and K live histories."""
    idx = item
    tier = ctx['tier']
    seed = core.derive_seed(ctx['seed'], PROP, idx)
    core.quiet_tenpy()
    np.seterr(all='ignore')
    # the process works in an empty scratch directory: any byte that bypasses the file-system seam lands there
    sd = core.scratch_dir('c18')
    old_cwd = os.getcwd()
    os.chdir(sd)
    try:
        res = _run_config(idx, tier, seed, ctx)
        leaked = sorted(os.listdir(sd))
        if leaked:
            raise core.HarnessError(f'files written past the simulated file system: {leaked[:5]}')
        return res
    finally:
        os.chdir(old_cwd)
        core.rm_scratch(sd)


def _run_config(idx, tier, seed, ctx):
    cfg = W.gen_config(seed, tier, family=ctx.get('family'), index=idx)
    stats = new_stats()
    stats['configs'] = 1
    stats['families'][cfg['family']] += 1
    stats['formats'][cfg['ext']] += 1
    violations = []
    if cfg['family'] in E.FAMILIES:
        # resume through the algorithm-level API: its own driver (no Simulation class, no save protocol to sweep)
        rng = random.Random(core.sub_seed(seed, 'faults'))
        return _pack(stats, E.run_config(cfg, dict(ctx, _idx=idx), stats, W, rng), idx)
    world, out, pre = reference_run(cfg)
    if world is None or out['outcome'] != 'finished':
        # A fault-free run that raises is not a C18 matter (nothing crashed, nothing was resumed): the
        # configuration is skipped and counted; see DESIGN.md 9.7 for what has been seen here.
        err = out['error']
        stats['ref_failed'].append({'idx': idx, 'family': cfg['family'],
                                    'error': (err['type'] + ' in ' + err['function']) if isinstance(err, dict)
                                    else str(err), 'clock': cfg['clock'], 'max_hours': cfg.get('max_hours')})
        return _pack(stats, [], idx)
    world._pre_bytes = pre
    ref_results = out['results']
    ref = {'ops': out['ops_in_segment'], 'n_saves': sum(1 for s in world.saves if s['segment'] >= 0 and s['completed']),
           'delivery_points': out['delivery_points'], 'clock_reads': out['clock_reads'],
           'save_markers': [sv['marker'] for sv in world.saves if sv['segment'] >= 0 and sv['completed']],
           'first_save_done_at': next((sv['marker'] for sv in world.saves if sv['segment'] >= 0 and sv['completed']),
                                      None)}
    stats['fs_ops'] += ref['ops']
    stats['sim_seconds'] += world.clock.now - 1.0e9
    for k, v in world.probes.items():
        stats['probes'][k] += v
    log_digest, sem_digest = run_digests(world)
    stats['digests'].append([idx, log_digest, sem_digest])
    if ctx.get('selftest_every') and idx % ctx['selftest_every'] == 0:
        w2, o2, _ = reference_run(cfg)
        stats['selftest']['twice'] += 1
        d2 = run_digests(w2)
        if d2[1] != sem_digest:
            stats['selftest']['mismatch'].append(idx)
        elif d2[0] != log_digest:
            # same op sequence and same content of every save, different bytes: pickle output of equal objects is
            # not canonical (seen with grouped sites: first run in a process vs later runs); informational
            stats['selftest']['bytes_differ'] = stats['selftest'].get('bytes_differ', 0) + 1
    rng = random.Random(core.sub_seed(seed, 'faults'))
    nb = neighbour_state(cfg, ref['save_markers'])
    if cfg.get('neighbour'):
        stats['probes']['neighbour_state_built' if nb else 'neighbour_state_unavailable'] += 1
    # ---- sweep
    if not ctx.get('no_sweep'):
        for sv in sweep(world, cfg, tier, rng, stats)[:2]:
            tear = sv['torn']
            plan = {'cfg': cfg, 'faults': [{'kind': 'kill', 'at_op': sv['k'], 'tear': tear}], 'clock_seed': 0,
                    'from_sweep': True}
            violations.append({'invariant': ('disk.ground_state_file_destroyed' if 'ground_state_file' in sv['state_class']
                                             else 'disk.partial_file_loads' if 'loads_unknown' in sv['state_class']
                                             else 'disk.no_complete_file'), 'detail': '[sweep] ' + sv['detail'],
                               'facts': {'family': cfg['family'], 'ext': cfg['ext'], 'segment': 0, 'start': 'fresh',
                                         'fault_kind': 'kill', 'state_class': list(sv['state_class']),
                                         'n_done': sv['n_done'], 'found_by': 'sweep'}, 'plan': plan})
    # ---- live histories
    for h in range(ctx['histories']):
        plan = gen_history(cfg, ref, rng)
        stats['histories'] += 1
        v = run_history(plan, ref_results, pre, stats, nb)
        if v is not None:
            v['plan'] = plan
            violations.append(v)
        if h == 0 and not stats['samples']:
            stats['samples'].append({'config': cfg, 'faults': plan['faults'],
                                     'reference': ref, 'violation': v['invariant'] if v else None})
    return _pack(stats, violations, idx)


def _pack(stats, violations, idx):
    stats = dict(stats)
    stats['distinct'] = sorted(stats['distinct'])
    for k in ('state_classes', 'crash_state_classes'):
        stats[k] = {'/'.join(c): n for c, n in stats[k].items()}
    for k in ('faults_fired', 'probes', 'families', 'formats'):
        stats[k] = dict(stats[k])
    for v in violations:
        v.pop('trace_full', None)
    return {'idx': idx, 'stats': stats, 'violations': violations[:4]}


# ---------------------------------------------------------------------------------------------
def violation_class(v):
    f = v.get('facts', {})
    return (v['invariant'], f.get('exc_type'), f.get('exc_function'), f.get('key'), f.get('kind'), f.get('keys'))


def replay_plan(plan, stats=None):
    """Re-execute a history plan from scratch (reference run included).  Returns violation or None."""
    core.quiet_tenpy()
    np.seterr(all='ignore')
    cfg = plan['cfg']
    stats = stats or new_stats()
    if cfg['family'] in E.FAMILIES:
        return E.replay_plan(plan, stats, W)
    world, out, pre = reference_run(cfg)
    if world is None or out['outcome'] != 'finished':
        err = out['error']
        return {'invariant': 'run.raised', 'detail': f'fault-free run failed: {err}',
                'facts': {'family': cfg['family'], 'fault_free': True,
                          'exc_type': err['type'] if isinstance(err, dict) else None,
                          'exc_function': err['function'] if isinstance(err, dict) else None}}
    world._pre_bytes = pre
    if not plan.get('ref_clock_reads'):
        plan = dict(plan, ref_clock_reads=out['clock_reads'])  # older replay files: liveness budget from this run
    nb = neighbour_state(cfg, [sv['marker'] for sv in world.saves if sv['segment'] >= 0 and sv['completed']])
    return run_history(plan, out['results'], pre, stats, nb)


def minimise(found, budget_s=240.0):
    plan = found['plan']
    want = violation_class(found)
    t0 = time.time()

    def fails(p):
        if time.time() - t0 > budget_s:
            return False
        v = replay_plan(p)
        return v is not None and violation_class(v)[:3] == want[:3]

    best = copy.deepcopy(plan)
    if not fails(best):
        return plan, None
    # drop faults
    i = 0
    while i < len(best['faults']) and len(best['faults']) > 0:
        cand = copy.deepcopy(best)
        del cand['faults'][i]
        if fails(cand):
            best = cand
        else:
            i += 1
    # simplify the configuration
    simplifications = [('ext', '.pkl'), ('clock', 'steady'), ('extra_measurements', False), ('L', 4),
                       ('preexisting_output', False), ('conserve', None), ('save_every', 0.0), ('mixer', None),
                       ('measure_at_checkpoints', False), ('max_hours', None), ('N_sweeps_check', 1),
                       ('chi_list', None), ('group_sites', 1), ('measure_initial', True), ('save_stats', True), ('save_psi', True), ('canonicalize', False), ('wrapped_measurement', False), ('truncerr_measurement', False), ('start_time', 0.0), ('preserve_norm', None), ('combine', False), ('diag_method', 'default'), ('max_S_err', None), ('max_E_err', None), ('max_sweeps', 3), ('n_outer', 3), ('N_steps', 1), ('chi', 8), ('model', 'TFIChain'),
                       ('order', 2), ('neighbour', False), ('out_stem', 'results'), ('skip_if_output_exists', False), ('disorder', None), ('random_seed', None), ('no_default_measurements', False), ('late_onset', 1)]
    for key, val in simplifications:
        if key in best['cfg'] and best['cfg'][key] != val and best['cfg'][key] is not None or (
                key in best['cfg'] and val is None and best['cfg'][key] is not None):
            if best.get('from_sweep'):
                continue  # sweep findings are tied to the op log of their configuration
            cand = copy.deepcopy(best)
            cand['cfg'][key] = val
            if fails(cand):
                best = cand
    # simplify fault parameters
    for i, f in enumerate(best['faults']):
        if f['kind'] in ('kill', 'sigint_kill') and f.get('tear') is not None:
            cand = copy.deepcopy(best)
            cand['faults'][i]['tear'] = None
            if fails(cand):
                best = cand
    v = replay_plan(best)
    return best, v


def replay_file(path):
    with open(path) as f:
        payload = json.load(f)
    v = replay_plan(payload['plan'])
    print(json.dumps({'replayed': path, 'violation': v}, indent=1, default=repr)[:3000])
    if v is not None:
        print(f'VIOLATION property={PROP} replay={path}')
        return 1
    print('replay: no violation on this tree')
    return 0


def digests_only(seed, tier, idxs, family=None):
    core.quiet_tenpy()
    np.seterr(all='ignore')
    out = []
    for idx in idxs:
        cfg = W.gen_config(core.derive_seed(seed, PROP, idx), tier, family=family, index=idx)
        if cfg['family'] in E.FAMILIES:
            world, o = E.reference(cfg, W)
            out.append([idx] + list(E.run_digests(world, o)))
            continue
        world, o, _ = reference_run(cfg)
        out.append([idx] + list(run_digests(world)))
    print(json.dumps(out))
    return 0


def main(argv=None):
    ap = argparse.ArgumentParser()
    ap.add_argument('--tier', default=os.environ.get('VERIF_TIER', 'quick'), choices=['quick', 'thorough'])
    ap.add_argument('--replay')
    ap.add_argument('--digests')
    ap.add_argument('--configs', type=int, default=None)
    ap.add_argument('--histories', type=int, default=None)
    ap.add_argument('--wall', type=float, default=None)
    ap.add_argument('--family', default=None)
    ap.add_argument('--no-sweep', action='store_true')
    ap.add_argument('--no-minimise', action='store_true')
    args = ap.parse_args(argv)
    seed = int(os.environ.get('VERIF_SEED', '0'))
    tier = args.tier
    if args.replay:
        return replay_file(args.replay)
    if args.digests:
        return digests_only(seed, tier, json.loads(args.digests), args.family)
    t0 = time.time()
    print(f'C18 tier={tier} VERIF_SEED={seed} PYTHONHASHSEED={os.environ.get("PYTHONHASHSEED")}', flush=True)
    n_cfg = args.configs or N_CONFIGS[tier]
    nproc = core.nproc_default()
    ctx = {'seed': seed, 'tier': tier, 'histories': args.histories or HISTORIES_PER_CONFIG[tier],
           'selftest_every': 8, 'family': args.family, 'no_sweep': args.no_sweep}
    tot = new_stats()
    violations = []
    digests = []

    known_early = core.load_known_findings(PROP)
    n_unknown = [0]

    def on_result(res):
        s = res['stats']
        for k in ('configs', 'sweep_states', 'torn_states', 'histories', 'histories_compared', 'segments_resumed',
                  'real_loads_of_partial_images', 'fs_ops'):
            tot[k] += s[k]
        tot['sim_seconds'] += s['sim_seconds']
        for k in ('state_classes', 'crash_state_classes', 'faults_fired', 'probes', 'families', 'formats'):
            tot[k].update(s[k])
        tot['distinct'].update(s['distinct'])
        for k, v in s['max_dev'].items():
            tot['max_dev'][k] = max(tot['max_dev'].get(k, 0.0), v)
        tot['selftest']['twice'] += s['selftest']['twice']
        tot['selftest']['bytes_differ'] = tot['selftest'].get('bytes_differ', 0) + s['selftest'].get('bytes_differ', 0)
        tot['selftest']['mismatch'].extend(s['selftest']['mismatch'])
        if len(tot['samples']) < 4:
            tot['samples'].extend(s['samples'])
        digests.extend(s['digests'])
        tot['ref_failed'].extend(s['ref_failed'])
        for v in res['violations']:
            if core.match_known(v, known_early) is None:
                n_unknown[0] += 1
            elif sum(1 for x in violations if core.match_known(x, known_early) is not None) >= 5:
                continue  # enough instances of a known finding collected
            violations.append(v)

    n_done, harness_errors, stopped = core.run_pool(
        'checks.c18', 'run_config', list(range(n_cfg)), ctx, nproc, chunk=1,
        per_run_timeout=1500 if tier == 'quick' else 5400,  # watchdog per configuration (a loaded machine is slow)
        wall_cap=args.wall or WALL_CAP[tier], on_result=on_result, stop_on=lambda r: n_unknown[0] >= 40)
    explore_wall = time.time() - t0

    xproc = {'checked': 0, 'checked_other_hashseed': 0, 'mismatch': []}
    if not harness_errors and digests:
        sample = sorted(digests)[:16 if tier == 'quick' else 48]
        # ... plus algorithm-level configurations (their slots come late in the stratification)
        sample += [d for d in sorted(digests) if d not in sample and len(d) > 1 and d[1] == d[2]][:2 if tier == 'quick' else 6]
        try:
            ref = {i: (d, ds) for i, d, ds in sample}
            idxs = [i for i, _, _ in sample]
            for hs, key in ((os.environ.get('PYTHONHASHSEED', '0'), 'checked'), ('4242', 'checked_other_hashseed')):
                # spread over a few processes
                parts = [idxs[j::4] for j in range(4)]
                procs = []
                for part in parts:
                    if part:
                        env = dict(os.environ, VERIF_HASHSEED=str(hs), VERIF_SEED=str(seed))
                        cmd = [os.path.join(core.VERIF, 'check'), PROP, '--tier', tier, '--digests', json.dumps(part)]
                        if args.family:
                            cmd += ['--family', args.family]
                        procs.append(subprocess.Popen(cmd, cwd=core.VERIF, env=env, stdout=subprocess.PIPE,
                                                      stderr=subprocess.PIPE, text=True))
                for p in procs:
                    so, se = p.communicate(timeout=900)
                    if p.returncode != 0:
                        raise core.HarnessError(f'digest subprocess failed: {se[-1500:]}')
                    for i, d, ds in json.loads(so.strip().splitlines()[-1]):
                        xproc[key] += 1
                        if ref[i][1] != ds:
                            xproc['mismatch'].append([i, key])
                        elif key == 'checked' and ref[i][0] != d:
                            xproc['bytes_differ'] = xproc.get('bytes_differ', 0) + 1
        except Exception as e:  # noqa: BLE001
            harness_errors.append({'harness_error': f'cross-interpreter determinism test failed to run: {e!r}'})
    if tot['selftest']['mismatch'] or xproc['mismatch']:
        harness_errors.append({'harness_error': f'non-deterministic reference runs: in-process '
                                                f'{tot["selftest"]["mismatch"][:5]} cross-process '
                                                f'{xproc["mismatch"][:5]}'})

    # regression replays of fixed findings
    regressions = {'replayed': 0, 'failing': []}
    regdir = os.path.join(core.VERIF, 'regressions')
    if os.path.isdir(regdir):
        for name in sorted(os.listdir(regdir)):
            if name.startswith(PROP + '-') and name.endswith('.json'):
                with open(os.path.join(regdir, name)) as f:
                    payload = json.load(f)
                v = replay_plan(payload['plan'])
                regressions['replayed'] += 1
                if v is not None:
                    v['plan'] = payload['plan']
                    regressions['failing'].append(name)
                    violations.append(v)

    known = core.load_known_findings(PROP)
    reported = []
    exit_code = 0
    # every listed known finding has a pinned replay: it is re-run on each invocation, so that its
    # KNOWN-FINDING line does not depend on whether the exploration happens to hit it
    known_status = {}
    for kf in known:
        rp = kf.get('replay')
        if not rp:
            continue
        try:
            with open(os.path.join(core.VERIF, rp)) as f:
                v = replay_plan(json.load(f)['plan'])
        except Exception as e:  # noqa: BLE001
            harness_errors.append({'harness_error': f'replay of known finding {kf["id"]} failed to run: {e!r}'})
            continue
        if v is None:
            known_status[kf['id']] = 'no longer reproduces on this tree'
            print(f"note: known finding {kf['id']} no longer reproduces on this tree (pinned replay {rp})")
        else:
            known_status[kf['id']] = 'reproduced'
            if core.match_known(v, [kf]) is None:
                v['plan'] = json.load(open(os.path.join(core.VERIF, rp)))['plan']
                violations.append(v)  # fails differently than recorded: reported below as a violation
            else:
                violations.insert(0, dict(v, plan=json.load(open(os.path.join(core.VERIF, rp)))['plan']))
    classes = {}
    for v in violations:
        kf = core.match_known(v, known)
        f = v.get('facts', {})
        key = ('known', kf['id']) if kf is not None else violation_class(v) + (f.get('start'), f.get('found_by'))
        classes.setdefault(key, v)
    t_min0 = time.time()
    for c, v in list(classes.items())[:6]:
        kf = core.match_known(v, known)
        plan, v2 = v['plan'], None
        if kf is None and not args.no_minimise and time.time() - t_min0 < 600:
            try:
                plan, v2 = minimise(v)
            except Exception as e:  # noqa: BLE001
                harness_errors.append({'harness_error': f'minimiser failed: {e!r}'})
        vv = v2 or v
        kf = core.match_known(vv, known) or kf
        payload = {'property': PROP, 'plan': plan, 'violation': {k: vv[k] for k in ('invariant', 'detail', 'facts')},
                   'trace': vv.get('trace'), 'found_at': {'verif_seed': seed, 'tier': tier},
                   'pythonhashseed': os.environ.get('PYTHONHASHSEED'), 'replay_cmd': './check C18 --replay <this file>'}
        if kf is not None:
            print(f"KNOWN-FINDING: property={PROP} {kf['id']}: {kf['what']}")
            reported.append({'known': kf['id'], 'invariant': vv['invariant']})
        else:
            path = core.write_replay(PROP, payload)
            print(f'VIOLATION property={PROP} replay={path}')
            print(f"  invariant={vv['invariant']} detail={vv['detail'][:400]}")
            print(f"  faults={json.dumps(plan['faults'])} cfg={json.dumps(plan['cfg'])[:500]}")
            reported.append({'violation': vv['invariant'], 'replay': path})
            exit_code = 1

    wall = time.time() - t0
    evaluations = tot['sweep_states'] + tot['histories']
    coverage = {
        'evaluations': evaluations,
        'distinct_nontrivial': len(tot['distinct']),
        'rule': ('one evaluation = one crash state reconstructed from the op log of a recorded fault-free run and '
                 'checked for a complete loadable results file (sweep), or one live history (start, up to three '
                 'faults each followed by recovery and resume, final comparison with the uninterrupted run). '
                 'Non-trivial: every sweep state lies inside a run with at least one save; a live history counts when '
                 'a fault fired. Distinct: sweep states by (format, class of (output, backup) file states, op kind at '
                 'the crash point, completed saves (capped), size bucket of the output); live crash states by (engine '
                 'family, format, segment, fault fired, outcome, file-state class, completed saves (capped)).'),
        'samples': tot['samples'][:3],
        'configurations': tot['configs'],
        'crash_states_swept': tot['sweep_states'],
        'of_which_torn_writes': tot['torn_states'],
        'live_histories': tot['histories'],
        'live_histories_compared_with_uninterrupted_run': tot['histories_compared'],
        'segments_resumed': tot['segments_resumed'],
        'engine_families': dict(tot['families']),
        'file_formats': dict(tot['formats']),
        'sweep_file_state_classes(output/backup)': dict(tot['state_classes']),
        'live_crash_file_state_classes(output/backup)': dict(tot['crash_state_classes']),
        'faults_fired': dict(tot['faults_fired']),
        'probes_hit': dict(tot['probes']),
        'real_loads_of_partial_images': tot['real_loads_of_partial_images'],
        'fs_ops_in_reference_runs': tot['fs_ops'],
        'simulated_seconds_reference_runs': round(tot['sim_seconds'], 1),
        'evaluations_per_hour': int(evaluations / max(explore_wall, 1e-9) * 3600),
        'live_histories_per_hour': int(tot['histories'] / max(explore_wall, 1e-9) * 3600),
        'max_deviation_resumed_vs_uninterrupted': {k: float(f'{v:.3e}') for k, v in sorted(tot['max_dev'].items())},
        'tolerances': TOL,
        'determinism_selftest': {'reference_run_twice_in_process': tot['selftest']['twice'],
                                 'fresh_interpreter_same_hashseed': xproc['checked'],
                                 'fresh_interpreter_other_hashseed': xproc['checked_other_hashseed'],
                                 'criterion': 'sequence of file-system ops + content digest of every save',
                                 'equal_content_but_different_pickle_bytes': tot['selftest'].get('bytes_differ', 0)
                                 + xproc.get('bytes_differ', 0),
                                 'mismatches': len(tot['selftest']['mismatch']) + len(xproc['mismatch'])},
        'configurations_skipped_because_the_fault_free_run_raised': tot['ref_failed'][:20],
        'regression_replays_of_fixed_findings': regressions,
        'pinned_replays_of_known_findings': known_status,
        'aggregate_digest_of_reference_runs': '%016x' % (sum(core.h64((i, d)) for i, d, _ in digests) % (1 << 64)),
        'stopped_by_wall_cap': bool(stopped),
        'processes': nproc,
        'real_code': ['tenpy.simulations (Simulation.save_results, save_at_checkpoint, from_saved_checkpoint, '
                      'resume_run, fix_output_filenames)', 'tenpy.run_simulation / resume_from_checkpoint',
                      'engines: TwoSite/SingleSiteDMRGEngine, TEBDEngine, QRBasedTEBDEngine, TwoSite/SingleSiteTDVPEngine,'
                      ' ExpMPOEvolution', 'tenpy.tools.hdf5_io.save/load', 'pickle', 'gzip.GzipFile', 'h5py + libhdf5 '
                      '(file-object driver)'],
        'simulated_or_stubbed': ['file system (SimFS: in-memory inodes, op log, kill = freeze + torn write)',
                                 'time module (SimClock) in simulation.py / algorithm.py / mps_common.py / dmrg.py / '
                                 'tebd.py / vumps.py', 'SIGINT / SIGTERM delivery (the registered handler is called at '
                                 'clock reads, path ops and between the objects of an HDF5 save; SIGTERM without '
                                 'handler ends the process there)',
                                 'ARPACK start vectors and numpy global generator (seeded per simulated process)',
                                 'the second simulation in the directory (real code, run beforehand in a world of its '
                                 'own; only its files take part)',
                                 'user script of the algorithm-level families eng_* (stub of ours: writes psi, options '
                                 'and get_resume_data() with hdf5_io.save at every checkpoint, resumes with '
                                 'resume_data= / resume_run()); models checks.c18_models.DrivenXXZ, DisorderedTFI and '
                                 'the user-defined measurements there',
                                 'git rev-parse of version info (stub)', 'logging set-up (disabled)'],
        'reported': reported,
        'harness_errors': [h['harness_error'][-500:] for h in harness_errors[:5]],
    }
    assumptions = [
        'crash model is process kill: every raw write that returned persists, user-space buffers are lost; no power-loss '
        '/ page-cache model (tenpy never fsyncs; the property says "the process dies")',
        'libhdf5 issues the same sequence of driver-level writes through h5py\'s file-object driver as through its '
        'default POSIX driver',
        'recovery policy of the user: load the output file, else the backup file; resume from the first that loads',
        'signals are delivered only at Python-level seam points (clock reads, path operations, between the objects of an '
        'HDF5 save), not inside tensor contractions',
        'algorithm-level families: a configuration whose final energy answers a 1e-13 perturbation of psi by more than '
        '1e-9 is skipped (not decidable); the others are compared with max(1e-8, 1e5 x that response)',
        'resume equivalence tolerances per engine class as listed under coverage.tolerances; DMRG with '
        'convergence-dependent sweep counts is compared in the weak form only',
        'sampling, not enumeration, except that the sweep visits every op boundary of the pickle/gzip runs it records',
    ]
    core.write_evidence(PROP, tier, seed, coverage, wall, sum(1 for r in reported if 'violation' in r), assumptions)
    print(f'C18: configs={tot["configs"]} crash_states={tot["sweep_states"]} (torn {tot["torn_states"]}) '
          f'histories={tot["histories"]} compared={tot["histories_compared"]} resumed_segments='
          f'{tot["segments_resumed"]} distinct={len(tot["distinct"])} faults={dict(tot["faults_fired"])} '
          f'wall={wall:.1f}s', flush=True)
    if harness_errors:
        for h in harness_errors[:5]:
            print('HARNESS-ERROR:', h['harness_error'][-1500:])
        return 1 if exit_code == 1 else 2
    return exit_code


if __name__ == '__main__':
    sys.exit(main())
