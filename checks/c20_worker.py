"""C20, workload 2: the Worker contract (the pattern of algorithms/dmrg_parallel.py and ThreadedStorage).

put_task / join_tasks / __exit__ under a simulated scheduler.  Invariants (from the docstrings):
each task runs at most once; FIFO; after join_tasks() returned normally every task put before it
has run and its result is in return_dict; a failing task makes later calls raise WorkerDied (never
hang); __exit__ terminates the thread; a Worker cannot be entered twice.
"""

import random

from sim import core
from sim.sched import Sched, SimDeadlock, SimHang, DONE


def gen_plan(run_seed, fault_mode='none'):
    wl = random.Random(core.sub_seed(run_seed, 'workload'))
    fl = random.Random(core.sub_seed(run_seed, 'faults'))
    cfg = {
        'max_queue_size': wl.choice([0, 1, 1, 2, 3]),
        'granularity': 'line' if wl.random() < 0.4 else 'sync',
        'p_switch': wl.choice([0.05, 0.2, 0.5, 0.8]),
        'p_line': wl.choice([0.02, 0.1, 0.3]),
        'p_jitter': wl.choice([0.0, 0.0, 0.05, 0.2]),
        'use_kwargs': wl.random() < 0.5,
        'return_dict': wl.random() < 0.8,
    }
    ops = []
    tid = 0
    n = wl.randint(2, 14)
    if wl.random() < 0.004:
        n = wl.randint(100, 300)  # a long-lived worker
        cfg['granularity'] = 'sync'
    p_raise = 0.15 if fault_mode == 'task_raises' else 0.0
    for _ in range(n):
        r = wl.random()
        if r < 0.55:
            tid += 1
            ops.append(['put', tid, 'raise' if fl.random() < p_raise else 'ok', wl.choice([0, 0, 1, 2])])
        elif r < 0.8:
            ops.append(['join'])
        elif r < 0.9:
            ops.append(['work', wl.choice([0.3, 1.0, 2.5])])
        else:
            ops.append(['alive'])
    tail = wl.random()
    if tail < 0.5:
        ops.append(['join'])
    ops.append(['exit', wl.choice(['none', 'exc', 'kbd'])])
    if wl.random() < 0.3:
        ops.append(['enter_again'])
    if wl.random() < 0.3:
        tid += 1
        ops.append(['put', tid, 'ok', 0])
    kills, stalls = [], []
    if fault_mode == 'kill':
        kills.append([1, fl.randint(1, 40), fl.choice(['MemoryError', 'RuntimeError'])])
    elif fault_mode == 'stall':
        stalls.append([fl.randrange(len(ops)), fl.choice([0.5, 1.5, 4.0, 30.0])])
    return {'workload': 'worker', 'run_seed': run_seed, 'cfg': cfg, 'ops': ops, 'fault_mode': fault_mode,
            'kills': kills, 'stalls': stalls, 'sched_seed': core.sub_seed(run_seed, 'schedule')}


class Violation(Exception):
    def __init__(self, invariant, detail, facts=None, op_index=None):
        super().__init__(invariant)
        self.info = {'invariant': invariant, 'detail': detail, 'facts': facts or {}, 'op_index': op_index}


def execute(plan, scratch_root=None, decisions=None, jitters=None):
    import tenpy.tools.thread as tt
    cfg = plan['cfg']
    replay = decisions is not None
    rng = None if replay else random.Random(plan['sched_seed'])
    line = cfg['granularity'] == 'line'
    sched = Sched(rng, p_switch=cfg['p_switch'], p_jitter=cfg['p_jitter'], decisions=decisions, jitters=jitters,
                  trace_files=('tenpy/tools/thread.py',) if line else (), p_line=cfg['p_line'])
    sched.op_step_limit = 20000 if line else 5000
    sched.op_time_limit = 600.0
    sched.fair_after = sched.op_step_limit // 2
    sched.kill_labels = {'q.get', 'ev.is_set'}
    for tid, n, exc_name in plan.get('kills', []):
        sched.kill_at[(tid, n)] = {'MemoryError': MemoryError, 'RuntimeError': RuntimeError}[exc_name]('injected')
    stalls = {int(i): float(t) for i, t in plan.get('stalls', [])}
    qmod, tmod = sched.modules()
    saved_q, saved_t = tt.queue, tt.threading
    tt.queue, tt.threading = qmod, tmod
    executed = []  # task ids in execution order (appended by the worker thread)
    results = {}
    trace = []
    states = set()
    res = {'violation': None}
    facts0 = {'fault_mode': plan['fault_mode'], 'max_queue_size': cfg['max_queue_size']}

    def task(tid, behave, nyield):
        executed.append(tid)
        for _ in range(nyield):
            sched.yield_point('task.work')
        if behave == 'raise':
            sched.probe('fault_fired:task_raises')
            raise OSError('injected task failure')
        return None if tid % 4 == 3 else tid * 10  # None is a result like any other

    cur = {'i': None, 'kind': None}
    try:
        try:
            w = tt.Worker('w', max_queue_size=cfg['max_queue_size'])
            sched.begin_op()
            w.__enter__()
            wst = sched.threads[1]  # the worker thread (first simulated thread created), whatever tenpy calls it
            if line:
                sched.enable_main_tracing()
            put_ok = []  # tids whose put_task returned normally, in order
            failed_put = False
            raised_tid = None
            exited = False
            for i, op in enumerate(plan['ops']):
                kind = op[0]
                cur['i'], cur['kind'] = i, kind
                if i in stalls and wst.state != DONE:
                    wst.stalled_until = sched.now + stalls[i]
                    sched.probe('fault_fired:worker_stall')
                sched.begin_op()
                sched.yield_point('op')
                try:  # internals, for the coverage measure only
                    states.add(core.h64((kind, len(w.tasks.items), min(w.tasks.unfinished, 4), wst.state,
                                         w.exit._flag)))
                except AttributeError:
                    states.add(core.h64((kind, wst.state)))
                dead_before = wst.state == DONE
                facts = dict(facts0, op=kind, after_exit=exited)
                try:
                    if kind == 'put':
                        _, tid, behave, ny = op
                        rd, rk = (results, tid) if cfg['return_dict'] else (None, None)
                        if cfg['use_kwargs']:
                            w.put_task(task, tid=tid, behave=behave, nyield=ny, return_dict=rd, return_key=rk)
                        else:
                            w.put_task(task, tid, behave, ny, return_dict=rd, return_key=rk)
                        out = 'ok'
                    elif kind == 'join':
                        w.join_tasks()
                        out = 'ok'
                    elif kind == 'work':
                        sched.sleep(op[1])
                        out = 'ok'
                    elif kind == 'alive':
                        out = 'ok'
                    elif kind == 'exit':
                        if op[1] == 'kbd':  # the with-block is left by a KeyboardInterrupt (not an Exception subclass)
                            w.__exit__(KeyboardInterrupt, KeyboardInterrupt('user abort'), None)
                        elif op[1] == 'exc':
                            w.__exit__(RuntimeError, RuntimeError('user error'), None)
                        else:
                            w.__exit__(None, None, None)
                        out = 'ok'
                    elif kind == 'enter_again':
                        w.__enter__()
                        out = 'ok'
                except Exception as e:  # noqa: BLE001
                    out = type(e).__name__
                trace.append([i, out])
                fault_seen = bool(sched.probes.get('fault_fired:thread_kill') or
                                  sched.probes.get('fault_fired:task_raises'))
                facts['fault_fired'] = fault_seen
                facts['got'] = out
                # ---- oracle
                if kind == 'put':
                    if out == 'ok':
                        put_ok.append(op[1])
                        if dead_before or exited:
                            raise Violation('worker.put_on_dead_worker_succeeded',
                                            f'op {i}: put_task returned normally, worker thread already terminated',
                                            facts, i)
                    elif out == 'WorkerDied':
                        if not (fault_seen or exited):
                            raise Violation('worker.spurious_WorkerDied', f'op {i}: put_task raised WorkerDied', facts,
                                            i)
                    else:
                        raise Violation('worker.unexpected_exception', f'op {i} {op}: {out}', facts, i)
                elif kind == 'join':
                    if out == 'ok':
                        if exited:
                            raise Violation('worker.join_after_exit_succeeded', f'op {i}', facts, i)
                        # documented guarantee: everything put before has been done
                        missing = [t for t in put_ok if t not in executed]
                        if missing:
                            raise Violation('worker.join_returned_with_tasks_not_run',
                                            f'op {i}: join_tasks() returned normally; tasks never run: {missing}',
                                            facts, i)
                        if cfg['return_dict']:
                            noresult = [t for t in put_ok if t not in results]
                            if noresult:
                                raise Violation('worker.join_returned_without_result',
                                                f'op {i}: join_tasks() returned normally but tasks {noresult} '
                                                f'have no result (a task failed)', facts, i)
                    elif out == 'WorkerDied':
                        if not (fault_seen or exited):
                            raise Violation('worker.spurious_WorkerDied', f'op {i}: join_tasks raised', facts, i)
                    else:
                        raise Violation('worker.unexpected_exception', f'op {i} {op}: {out}', facts, i)
                elif kind == 'exit':
                    exited = True
                    if out != 'ok':
                        raise Violation('worker.exit_raised', f'op {i}: {out}', facts, i)
                    if wst.state != DONE:
                        raise Violation('worker.exit_leaves_thread', f'op {i}: thread state {wst.state}', facts, i)
                elif kind == 'enter_again':
                    if out != 'ValueError':
                        raise Violation('worker.reentered', f'op {i}: second __enter__ gave {out}', facts, i)
                # ---- invariants over the execution record, after every op
                if len(set(executed)) != len(executed):
                    raise Violation('worker.task_ran_twice', f'executed={executed}', facts, i)
                if executed != put_ok[:len(executed)] and executed != [t for t in put_ok if t in executed]:
                    raise Violation('worker.not_fifo', f'executed={executed} put={put_ok}', facts, i)
                if [t for t in put_ok if t in executed] != executed:
                    raise Violation('worker.not_fifo', f'executed={executed} put={put_ok}', facts, i)
                for t, r in results.items():
                    if r != (None if t % 4 == 3 else t * 10):
                        raise Violation('worker.wrong_result', f'results[{t}]={r}', facts, i)
            if not exited:
                sched.begin_op()
                w.__exit__(None, None, None)
                if wst.state != DONE:
                    raise Violation('worker.exit_leaves_thread', 'final exit', dict(facts0, op='final_exit'), None)
        except Violation as v:
            res['violation'] = v.info
        except SimDeadlock as e:
            res['violation'] = {'invariant': 'worker.deadlock', 'detail': str(e),
                                'facts': dict(facts0, op=cur['kind']), 'op_index': cur['i']}
        except SimHang as e:
            res['violation'] = {'invariant': 'worker.hang', 'detail': str(e),
                                'facts': dict(facts0, op=cur['kind']), 'op_index': cur['i']}
        finally:
            sched.disable_main_tracing()
    finally:
        leaked = sched.shutdown()
        tt.queue, tt.threading = saved_q, saved_t
    if leaked:
        raise core.HarnessError(f'simulated threads leaked: {leaked}')
    res.update({
        'log_digest': core.digest([sched.log, trace, executed]),
        'sig': core.h64(sched.log),
        'decisions': sched.decisions, 'jitters': sched.jitters, 'steps': sched.steps, 'switches': sched.switches,
        'vtime': sched.now, 'probes': dict(sched.probes), 'faults_fired': [], 'states': sorted(states),
        'trace': trace,
    })
    return res
