"""C20, workload 4: the real clients of the cache and of the Worker, under random schedules.

(a) finite DMRG whose environments live in a CacheFile with PickleStorage / Hdf5Storage behind
    ThreadedStorage (the engine issues set / get / del / preload / set_short_term_keys on a sub-cache),
(b) DMRGThreadPlusHC (matvec split between the caller and a Worker thread),
each under a seeded scheduler (sync granularity), optionally with worker stalls or an injected
I/O error.  Differential oracle: the only thing that differs from the reference run (trivial in-RAM
cache / serial TwoSiteDMRGEngine, computed once per configuration) is the component under test, so
energy and state must agree to 1e-10.  With an injected I/O error the run must raise (a failing
worker surfaces), never hang and never return a wrong result.
"""

import os
import random
import shutil

import numpy as np

from sim import core
from sim.sched import Sched, SimDeadlock, SimHang
from checks import c20_cache

_REF = {}


def gen_plan(run_seed, fault_mode='none'):
    wl = random.Random(core.sub_seed(run_seed, 'workload'))
    fl = random.Random(core.sub_seed(run_seed, 'faults'))
    kind = wl.choice(['cache', 'cache', 'plus_hc', 'both'])
    cfg = {
        'kind': kind,
        'storage': wl.choice(['PickleStorage', 'PickleStorage', 'Hdf5Storage']),
        'max_queue_size': wl.choice([1, 2, 2, 3]),
        'L': wl.choice([8, 8, 10]),
        'chi': wl.choice([8, 16]),
        'model': wl.choice(['TFIChain', 'XXZChain']),
        'engine': wl.choice(['TwoSiteDMRGEngine', 'SingleSiteDMRGEngine']) if kind == 'cache' else 'TwoSiteDMRGEngine',
        'max_sweeps': wl.choice([2, 3]),
        'p_switch': wl.choice([0.05, 0.3, 0.7]),
        'p_jitter': wl.choice([0.0, 0.05]),
        'granularity': 'sync',
    }
    faults, stalls = [], []
    if fault_mode == 'io' and kind != 'plus_hc':
        faults.append([fl.randint(3, 120), fl.choice(['enospc', 'eio', 'truncate'])])
    elif fault_mode == 'stall':
        stalls.append([fl.randint(1, 200), fl.choice([0.5, 2.0, 30.0])])  # [n-th scheduler step, seconds]
    return {'workload': 'client', 'run_seed': run_seed, 'cfg': cfg, 'ops': [], 'fault_mode': fault_mode,
            'faults': faults, 'stalls': stalls, 'kills': [], 'sched_seed': core.sub_seed(run_seed, 'schedule')}


def _setup(cfg):
    from tenpy.models.tf_ising import TFIChain
    from tenpy.models.xxz_chain import XXZChain
    from tenpy.networks.mps import MPS
    L = cfg['L']
    plus_hc = cfg['kind'] in ('plus_hc', 'both')
    if plus_hc:
        # DMRGThreadPlusHC needs an MPO with explicit_plus_hc (couplings added with plus_hc=True)
        from tenpy.models.spins import SpinChain
        M = SpinChain({'L': L, 'S': 0.5, 'Jx': 1.0, 'Jy': 1.0, 'Jz': 0.5, 'hz': 0.1, 'bc_MPS': 'finite',
                       'explicit_plus_hc': True})
        psi = MPS.from_lat_product_state(M.lat, [['up'], ['down']])
    elif cfg['model'] == 'TFIChain':
        M = TFIChain({'L': L, 'J': 1.0, 'g': 1.3, 'bc_MPS': 'finite', 'conserve': None})
        psi = MPS.from_lat_product_state(M.lat, [['up']])
    else:
        M = XXZChain({'L': L, 'Jxx': 1.0, 'Jz': 0.5, 'hz': 0.0, 'bc_MPS': 'finite'})
        psi = MPS.from_lat_product_state(M.lat, [['up'], ['down']])
    options = {'trunc_params': {'chi_max': cfg['chi'], 'svd_min': 1.0e-10}, 'max_sweeps': cfg['max_sweeps'],
               'min_sweeps': cfg['max_sweeps'] + 1, 'mixer': None, 'N_sweeps_check': 1, 'max_trunc_err': None,
               'lanczos_params': {'N_min': 2, 'N_max': 12}, 'combine': True,
               'diag_method': 'lanczos'}  # always go through matvec (the default switches to exact diagonalisation)
    if cfg['engine'] == 'SingleSiteDMRGEngine':
        options['mixer'] = True
        options['mixer_params'] = {'amplitude': 1.0e-5, 'decay': 2.0, 'disable_after': 2}
    return M, psi, options


def reference(cfg):
    """Same run with the in-RAM cache and the serial engine (cached per configuration in this process)."""
    key = (cfg['model'], cfg['L'], cfg['chi'], cfg['engine'], cfg['max_sweeps'], cfg['kind'] in ('plus_hc', 'both'))
    if key not in _REF:
        import tenpy.algorithms.dmrg as dmrg
        M, psi, options = _setup(cfg)
        eng = getattr(dmrg, cfg['engine'])(psi, M, options)
        E, psi = eng.run()
        _REF[key] = (float(E), psi)
    return _REF[key]


def execute(plan, scratch_root, decisions=None, jitters=None):
    import tenpy.algorithms.dmrg as dmrg
    import tenpy.algorithms.dmrg_parallel as dmrg_parallel
    import tenpy.tools.thread as tt
    from tenpy.tools.cache import CacheFile
    cfg = plan['cfg']
    E_ref, psi_ref = reference(cfg)
    replay = decisions is not None
    rng = None if replay else random.Random(plan['sched_seed'])
    sched = Sched(rng, p_switch=cfg['p_switch'], p_jitter=cfg['p_jitter'], decisions=decisions, jitters=jitters)
    sched.op_step_limit = 2_000_000
    sched.op_time_limit = 1.0e6
    sched.fair_after = None
    inj = c20_cache.Injector(plan.get('faults', []), sched)
    stalls = {int(n): float(t) for n, t in plan.get('stalls', [])}

    def on_sp(label):
        t = stalls.pop(sched.steps, None)
        if t is not None and len(sched.threads) > 1:
            st = sched.threads[1]
            if st.state != 'DONE':
                st.stalled_until = sched.now + t
                sched.probe('fault_fired:worker_stall')
    if stalls:
        sched.on_switch_point = on_sp
    qmod, tmod = sched.modules()
    saved_q, saved_t = tt.queue, tt.threading
    tt.queue, tt.threading = qmod, tmod
    saved = c20_cache.install_seams(inj)
    rundir = os.path.join(scratch_root, 'client')
    shutil.rmtree(rundir, ignore_errors=True)
    os.makedirs(rundir)
    res = {'violation': None}
    facts = {'kind': cfg['kind'], 'storage': cfg['storage'], 'fault_mode': plan['fault_mode']}
    outcome = None
    try:
        try:
            M, psi, options = _setup(cfg)
            sched.begin_op()
            Eng = dmrg_parallel.DMRGThreadPlusHC if cfg['kind'] in ('plus_hc', 'both') else getattr(dmrg, cfg['engine'])
            try:
                if cfg['kind'] == 'plus_hc':
                    eng = Eng(psi, M, options)
                    E, psi = eng.run()
                else:
                    with CacheFile.open(storage_class=cfg['storage'], use_threading=True,
                                        max_queue_size=cfg['max_queue_size'], tmpdir=rundir) as cache:
                        eng = Eng(psi, M, options, cache=cache)
                        E, psi = eng.run()
                outcome = 'finished'
            except Exception as e:  # noqa: BLE001
                outcome = 'raised:' + type(e).__name__
                err = f'{type(e).__name__}: {e}'[:200]
            facts['outcome'] = outcome
            facts['fault_fired'] = bool(inj.fired)
            if outcome == 'finished':
                dE = abs(float(E) - E_ref)
                ov = abs(psi.overlap(psi_ref)) / np.sqrt(abs(psi.overlap(psi)) * abs(psi_ref.overlap(psi_ref)))
                res['dE'] = dE
                res['d_ov'] = abs(1 - ov)
                if inj.fired and any(f[1] != 'truncate' or True for f in inj.fired):
                    # an I/O error hit a cache operation, yet the run claims success: was it swallowed?
                    if dE > 1e-10 or abs(1 - ov) > 1e-10:
                        raise c20_cache.Violation('client.wrong_result_after_fault',
                                                  f'dE={dE:.3e} 1-ov={abs(1 - ov):.3e} after {inj.fired}', facts)
                    sched.probe('io_error_absorbed_with_correct_result')
                elif dE > 1e-10 or abs(1 - ov) > 1e-10:
                    raise c20_cache.Violation('client.result_differs_from_reference',
                                              f'dE={dE:.3e} 1-ov={abs(1 - ov):.3e} vs in-RAM cache / serial engine',
                                              facts)
            else:
                if not inj.fired:
                    raise c20_cache.Violation('client.raised_without_fault', err, facts)
                sched.probe('fault_surfaced_as:' + outcome)
            alive = sched.alive_threads()
            if alive:
                raise c20_cache.Violation('client.thread_left_running', f'alive after the run: {alive}', facts)
            # (an injected failure of the clean-up call itself - rmtree / os.remove at close - legitimately leaves
            # the files behind; close() has raised the error)
            cleanup_failed = any(f[2] in ('rmtree', 'os.remove') for f in inj.fired)
            if os.listdir(rundir) and not cleanup_failed:
                raise c20_cache.Violation('client.cache_files_left', f'{os.listdir(rundir)}', facts)
        except c20_cache.Violation as v:
            res['violation'] = v.info
        except SimDeadlock as e:
            res['violation'] = {'invariant': 'client.deadlock', 'detail': str(e), 'facts': facts, 'op_index': None}
        except SimHang as e:
            res['violation'] = {'invariant': 'client.hang', 'detail': str(e), 'facts': facts, 'op_index': None}
    finally:
        leaked = sched.shutdown()
        c20_cache.remove_seams(saved)
        tt.queue, tt.threading = saved_q, saved_t
        shutil.rmtree(rundir, ignore_errors=True)
    if leaked:
        raise core.HarnessError(f'simulated threads leaked: {leaked}')
    res.update({
        'log_digest': core.digest([sched.log[:5000], outcome, res.get('dE')]),
        'sig': core.h64(sched.log[:5000]),
        'decisions': sched.decisions, 'jitters': sched.jitters, 'steps': sched.steps, 'switches': sched.switches,
        'vtime': sched.now, 'probes': dict(sched.probes), 'faults_fired': inj.fired, 'states': [],
        'trace': [[0, outcome]], 'io_calls': inj.n,
    })
    return res
