"""C18: the simulated world -- SimFS + SimClock + SIGINT delivery around real tenpy simulations.

Real code: Simulation/GroundStateSearch/RealTimeEvolution, the engines, hdf5_io.save/load, pickle,
gzip, h5py+libhdf5 (through h5py's file-object driver).  Simulated: the file system, the clock,
signal delivery.  Stubbed: the `git rev-parse` subprocess of version info, logging set-up.
"""

import contextlib
import hashlib
import os
import random
import signal
import time as real_time
import traceback

import numpy as np

from sim import core, simfs
from sim.simfs import SimCrash


_DEVNULL = open(os.devnull, 'w')


# ---------------------------------------------------------------------------------------------
class SimLiveness(BaseException):
    """The simulated process read the clock far more often than an uninterrupted run does: no progress."""


class SimClock:
    """Stand-in for the `time` module.  Every .time() advances by a seeded increment."""

    max_reads = None  # bounded liveness: budget of clock reads for this simulated process

    def __init__(self, seed, profile, on_read=None):
        self.rng = random.Random(seed)
        self.profile = profile
        self.now = 1.0e9
        self.reads = 0
        self.on_read = on_read
        self.jumps = {'forward': 0, 'backward': 0}

    def time(self):
        self.reads += 1
        if self.max_reads is not None and self.reads > self.max_reads:
            raise SimLiveness(f'{self.reads} clock reads')
        p = self.profile
        r = self.rng.random()
        if p == 'steady':
            self.now += 0.001 + 0.01 * r
        elif p == 'slow':
            self.now += 0.2 + 3.0 * r
        elif p == 'jumpy':
            if r < 0.03:
                self.now += 7200.0  # suspend / NTP step forward: trips max_hours
                self.jumps['forward'] += 1
            elif r < 0.06:
                self.now -= 30.0  # NTP step backwards
                self.jumps['backward'] += 1
            else:
                self.now += 0.5 * r
        else:
            raise ValueError(p)
        if self.on_read is not None:
            self.on_read('clock')
        return self.now

    def peek(self):
        return int(self.now)

    def asctime(self, *a):
        return real_time.asctime(real_time.gmtime(self.now))

    def __getattr__(self, name):
        return getattr(real_time, name)


# ---------------------------------------------------------------------------------------------
# configurations

ENGINES = {
    'dmrg2': ('GroundStateSearch', 'TwoSiteDMRGEngine'),
    'dmrg1': ('GroundStateSearch', 'SingleSiteDMRGEngine'),
    'exc': ('OrthogonalExcitations', 'TwoSiteDMRGEngine'),
    'tebd': ('RealTimeEvolution', 'TEBDEngine'),
    'qrtebd': ('RealTimeEvolution', 'QRBasedTEBDEngine'),
    'tdvp2': ('RealTimeEvolution', 'TwoSiteTDVPEngine'),
    'tdvp1': ('RealTimeEvolution', 'SingleSiteTDVPEngine'),
    'expmpo': ('RealTimeEvolution', 'ExpMPOEvolution'),
    # further simulation classes / boundary conditions (thorough tier, and a share of the quick tier)
    'idmrg': ('GroundStateSearch', 'TwoSiteDMRGEngine'),  # infinite MPS: environments are part of the resume data
    'tdcorr': ('TimeDependentCorrelation', 'TEBDEngine'),
    'tdcorr_bk': ('TimeDependentCorrelationEvolveBraKet', 'TEBDEngine'),
    'spectral': ('SpectralSimulation', 'TEBDEngine'),
    'vumps': ('GroundStateSearch', 'TwoSiteVUMPSEngine'),  # resume_run is a documented NotImplementedError: files only
    # time-dependent Hamiltonians (the model is re-initialised at the current time, also right after a resume)
    'tdtebd': ('RealTimeEvolution', 'TimeDependentTEBD'),
    'tdexpmpo': ('RealTimeEvolution', 'TimeDependentExpMPOEvolution'),
    'tdtdvp2': ('RealTimeEvolution', 'TimeDependentTwoSiteTDVP'),
}
TIME_DEPENDENT = ('tdtebd', 'tdexpmpo', 'tdtdvp2')


FAMILY_SLOTS = ['dmrg2', 'dmrg2', 'dmrg1', 'tebd', 'tebd', 'qrtebd', 'tdvp2', 'tdvp1', 'expmpo', 'idmrg', 'idmrg', 'tdcorr',
                'tdcorr_bk', 'spectral', 'vumps', 'tdtebd', 'tdexpmpo', 'tdtdvp2', 'eng_seg', 'eng_fin', 'exc']
# eng_*: resume through the algorithm-level API (checks/c18_engine.py)
# infinite DMRG twice: cheap runs, and the richest resume data (environments)


def gen_config(seed, tier='quick', family=None, index=None):
    wl = random.Random(core.sub_seed(seed, 'config'))
    fam_random = wl.choice(FAMILY_SLOTS)
    # stratified over the engine families: configuration number i takes slot i (mod length) of the list, so that
    # every family gets its share in every batch; all other options are drawn at random from the seed
    fam = family or (FAMILY_SLOTS[index % len(FAMILY_SLOTS)] if index is not None else fam_random)
    if fam.startswith('eng_'):
        from checks import c18_engine
        return c18_engine.gen_cfg(seed, fam, tier)
    L = wl.choice([4, 6]) if tier == 'quick' else wl.choice([4, 6, 6, 8])
    model = wl.choice(['TFIChain', 'XXZChain'])
    conserve = wl.choice([None, 'best'])
    cfg = {
        'family': fam,
        'L': L,
        'model': model,
        'conserve': conserve,
        'ext': wl.choice(['.pkl', '.pkl', '.pklz', '.h5']),
        'save_every': wl.choice([0.0, 0.0, 0.0, 1.0, 1000.0]),
        'clock': wl.choice(['steady', 'steady', 'slow', 'jumpy']),
        'chi': wl.choice([4, 4, 8, 16]),  # chi=4 truncates for L>=6: most state-carrying defects need a binding truncation
        'preexisting_output': wl.random() < 0.15,
        'extra_measurements': wl.random() < 0.4,
        'seed': seed,
        # further option dimensions (swarm): each is off in most runs
        'group_sites': 2 if ((fam in ('tebd', 'tdvp1') or (fam in ('tdvp2', 'dmrg2', 'expmpo') and L >= 6))
                             and wl.random() < 0.35) else 1,
        'measure_initial': wl.random() > 0.15,
        'save_stats': wl.random() > 0.2,
        'save_psi': wl.random() > 0.12,  # False: psi only inside resume_data (save_resume_data=True)
        'canonicalize': wl.random() < 0.2,  # canonicalize_before_measurement (on a copy of psi, says the documentation)
        'wrapped_measurement': wl.random() < 0.5,  # only used together with extra_measurements
        'truncerr_measurement': wl.random() < 0.3,  # only with extra_measurements + wrapped_measurement, time evolution
    }
    if fam == 'vumps' and cfg['ext'] == '.h5':
        # Observed on the pinned tree: an HDF5 results file holding a UniformMPS (VUMPS checkpoints) does not load
        # ("'UniformMPS' object has no attribute 'unit_cell_width'") even when written without any fault.  That is
        # a save/load round-trip defect (C17's subject, a pure function of the object: outside this technique), so
        # VUMPS runs use the pickle formats here; see DESIGN.md 9.7.
        cfg['ext'] = wl.choice(['.pkl', '.pklz'])
    if fam in ('idmrg', 'vumps', 'exc'):
        cfg['L'] = 2
        cfg['model'] = 'TFIChain'  # gapped (g=1.5): infinite-system runs converge within the few sweeps we do
    if fam == 'exc':
        # OrthogonalExcitations on a segment of an infinite ground state that an earlier GroundStateSearch left in
        # `gs<ext>`; with write_back the simulation rewrites *that* file (converged environments) through
        # save_results.  resume_run_algorithm is a NotImplementedError: file consistency only, like VUMPS.
        cfg.update({'conserve': 'best', 'group_sites': 1, 'preexisting_output': False, 'extra_measurements': False,
                    'canonicalize': False, 'save_every': 0.0,
                    'write_back': wl.random() < 0.75, 'enlarge': wl.choice([2, 3]), 'N_excitations': wl.choice([1, 2]),
                    'switch_sector': wl.random() < 0.6, 'max_sweeps': wl.choice([3, 4, 5]), 'mixer': None,
                    'fixed_sweeps': True})
    if fam == 'exc':
        pass
    elif fam.startswith('dmrg') or fam in ('idmrg', 'vumps'):
        cfg.update({
            'max_sweeps': wl.choice([3, 4, 6]) if wl.random() > 0.04 else 12,  # occasionally a long run
            'N_sweeps_check': wl.choice([1, 1, 2]),
            'mixer': wl.choice([None, None, True]),
            'fixed_sweeps': wl.random() < 0.6,  # convergence criteria disabled: the sweep count is fixed
            'measure_at_checkpoints': wl.random() < 0.5,
            'max_hours': wl.choice([None, None, 1.0]),
            'combine': wl.choice([False, False, True]),
            # 'default' solves the small local problems of these system sizes by exact diagonalisation; with 'lanczos'
            # the Lanczos tolerances that DMRG adapts to the truncation error during the run come into play
            'diag_method': wl.choice(['default', 'lanczos']),
            # convergence criteria (only matter when the sweep count is not fixed): entropy criterion switched off,
            # tighter energy criterion
            'max_S_err': wl.choice([None, None, 1.0]),
            'max_E_err': wl.choice([None, None, 1.0e-10]),
        })
        # chi_list: ramp the bond dimension up during the run; a value of None means "chi_max at initialisation"
        r = wl.random()
        if r < 0.3 and cfg['chi'] > 4:
            at = wl.choice([1, 2, 3])
            cfg['chi_list'] = [[0, wl.choice([2, 4])], [at, None if wl.random() < 0.5 else cfg['chi']]]
        else:
            cfg['chi_list'] = None
        if fam == 'idmrg':
            # infinite DMRG is compared in the weak form (energy 1e-5): keep the runs converged enough for that -
            # with chi_list starting at chi=2 and three sweeps the resumed trajectory differed by 2e-5 (soak, seed 209)
            cfg['chi_list'] = None
            cfg['max_sweeps'] = max(cfg['max_sweeps'], 6)
    else:
        cfg.update({
            'dt': wl.choice([0.05, 0.1]),
            'N_steps': wl.choice([1, 2]),
            'n_outer': wl.choice([3, 4, 6]) if wl.random() > 0.04 else 16,  # occasionally a long run (many checkpoints)
            'order': (wl.choice([1, 2, 4, '4_opt']) if fam in ('tebd', 'qrtebd', 'tdcorr', 'tdcorr_bk', 'spectral')
                      else (wl.choice([1, 2]) if fam == 'tdtebd' else None)),
            'compression': wl.choice(['SVD', 'variational', 'zip_up']) if fam in ('expmpo', 'tdexpmpo') else None,
            'approximation': wl.choice(['I', 'II']) if fam in ('expmpo', 'tdexpmpo') else None,
            'start_time': wl.choice([0.0, 0.0, 0.0, 1.5]),
            'preserve_norm': wl.choice([None, None, True, False]),
        })
    # Output file name and a second simulation in the same directory, drawn from their own generator (the
    # configurations of earlier seeds stay what they were).  Dotted stems are what `output_filename_params`
    # produces for float parameters of a scan; the neighbour is another job of that scan (or, for the plain name,
    # the `_1` file that fix_output_filenames() gives a second run with the same output_filename) which died
    # inside a save and is waiting to be resumed while this simulation runs next to it.
    nl = random.Random(core.sub_seed(seed, 'names'))
    cfg['out_stem'] = nl.choice(['results'] * 6 + ['scan_Jz_0.5', 'run.v2', 'chi_16.g_1.25', 'a.b'])
    cfg['neighbour'] = fam != 'exc' and nl.random() < (0.6 if '.' in cfg['out_stem'] else 0.15)
    # the job script protects finished results: "skip if the output exists" (no output exists when the run starts)
    cfg['skip_if_output_exists'] = (not cfg['preexisting_output']) and fam != 'exc' and nl.random() < 0.12
    # `random_seed`, and a model with quenched disorder drawn at construction (from numpy's global generator, which
    # that option seeds, or from the model's own rng, whose seed the simulation derives from it)
    cfg['random_seed'] = 1234 if nl.random() < 0.2 else None
    cfg['disorder'] = None
    if (cfg['random_seed'] is not None and cfg['model'] == 'TFIChain' and fam not in TIME_DEPENDENT
            and fam not in ('idmrg', 'vumps', 'exc')):
        cfg['disorder'] = nl.choice(['np', 'np', 'rng', None])
    # only user-connected measurements (no measurement_index / bond_dimension / entropy from the defaults)
    cfg['no_default_measurements'] = bool(cfg['extra_measurements'] and cfg.get('wrapped_measurement')
                                          and nl.random() < 0.35)
    cfg['late_onset'] = nl.choice([1, 1, 2, 3])
    if fam.startswith('dmrg') or fam in ('idmrg', 'vumps', 'exc'):
        # ground-state searches may legitimately take a different number of sweeps (and of measurements at
        # checkpoints) after a resume: whether a key with a later onset appears at all would depend on that
        cfg['late_onset'] = 1
    return cfg


def neighbour_stem(stem):
    """Output name of the other simulation in the directory: same prefix up to the last dot."""
    if '.' not in stem:
        return stem + '_1'
    head, last = stem.rsplit('.', 1)
    if last[-1].isdigit():
        return head + '.' + last[:-1] + str((int(last[-1]) + 3) % 10)
    return head + '.' + last + 'x'


def gs_file(cfg):
    return 'gs' + cfg['ext']


def build_gs_params(cfg):
    """The earlier ground-state search whose results file an `exc` configuration starts from."""
    return {'simulation_class': 'GroundStateSearch', 'output_filename': gs_file(cfg), 'model_class': 'TFIChain',
            'model_params': {'L': 2, 'J': 1.0, 'g': 1.5, 'bc_MPS': 'infinite', 'conserve': 'parity'},
            'initial_state_params': {'method': 'lat_product_state', 'product_state': [['up']]},
            'algorithm_params': {'trunc_params': {'chi_max': 16, 'svd_min': 1.0e-8}, 'max_sweeps': 30, 'mixer': False}}


def build_params(cfg, out_name=None):
    out_name = out_name or cfg.get('out_stem', 'results')
    if cfg['family'] == 'exc':
        n = cfg['max_sweeps']
        return {'simulation_class': 'OrthogonalExcitations', 'output_filename': out_name + cfg['ext'],
                'ground_state_filename': gs_file(cfg), 'save_every_x_seconds': 0.0,
                'write_back_converged_ground_state_environments': bool(cfg['write_back']),
                'segment_enlarge': cfg['enlarge'], 'N_excitations': cfg['N_excitations'],
                'switch_charge_sector': [1] if cfg['switch_sector'] else None,
                'algorithm_params': {'trunc_params': {'chi_max': 16, 'svd_min': 1.0e-8}, 'min_sweeps': n,
                                     'max_sweeps': n, 'mixer': False}}
    sim_class, alg = ENGINES[cfg['family']]
    L = cfg['L']
    fam = cfg['family']
    bc = 'infinite' if fam in ('idmrg', 'vumps') else 'finite'
    is_gs = fam.startswith('dmrg') or fam in ('idmrg', 'vumps')
    if fam in TIME_DEPENDENT:
        import checks.c18_models  # noqa: F401  (defines DrivenXXZ)
        model_params = {'L': L, 'Jxx': 1.0, 'Jz': 1.5, 'h': 0.7, 'omega': 2.0, 'bc_MPS': 'finite'}
        init = {'method': 'lat_product_state', 'product_state': [['up'], ['down']]}
    elif cfg['model'] == 'TFIChain':
        model_params = {'L': L, 'J': 1.0, 'g': 1.5, 'bc_MPS': bc, 'conserve': cfg['conserve']}
        init = {'method': 'lat_product_state', 'product_state': [['up']]}
        if not is_gs:
            # quench from a tilted product state is not available without extra ops; use Neel-like in x? keep 'up':
            model_params['g'] = 0.7
    else:
        # DMRG: XY-like regime with a unique ground state; time evolution: Ising-like quench from the Neel state
        Jz = 0.5 if is_gs else 1.5
        model_params = {'L': L, 'Jxx': 1.0, 'Jz': Jz, 'hz': 0.0, 'bc_MPS': bc, 'conserve': cfg['conserve']}
        init = {'method': 'lat_product_state', 'product_state': [['up'], ['down']]}
    params = {
        'simulation_class': sim_class,
        'model_class': 'DrivenXXZ' if fam in TIME_DEPENDENT else cfg['model'],
        'model_params': model_params,
        'initial_state_params': init,
        'algorithm_class': alg,
        'output_filename': out_name + cfg['ext'],
        'save_every_x_seconds': cfg['save_every'],
        'overwrite_output': bool(cfg['preexisting_output']),
    }
    if cfg.get('skip_if_output_exists'):
        params['skip_if_output_exists'] = True
    if cfg.get('no_default_measurements') and cfg['extra_measurements'] and cfg.get('wrapped_measurement'):
        params['use_default_measurements'] = False
    if cfg.get('random_seed') is not None:
        params['random_seed'] = cfg['random_seed']
    if cfg.get('disorder') and cfg.get('random_seed') is not None:  # (unseeded disorder is not reproducible at all)
        import checks.c18_models  # noqa: F401  (defines DisorderedTFI)
        params['model_class'] = 'DisorderedTFI'
        params['model_params'].update({'W': 0.3, 'disorder_source': cfg['disorder']})
    if cfg.get('group_sites', 1) > 1:
        params['group_sites'] = cfg['group_sites']
    if not cfg.get('measure_initial', True):
        params['measure_initial'] = False
    if is_gs and not cfg.get('save_stats', True):
        params['save_stats'] = False
    if cfg.get('canonicalize') and bc == 'finite' and not cfg.get('mixer'):
        params['canonicalize_before_measurement'] = True
    if not cfg.get('save_psi', True):
        params['save_psi'] = False
        params['save_resume_data'] = True
    trunc = {'chi_max': cfg['chi'], 'svd_min': 1.0e-10}
    if is_gs:
        ap = {'trunc_params': trunc, 'max_sweeps': cfg['max_sweeps'], 'N_sweeps_check': cfg['N_sweeps_check'],
              'mixer': cfg['mixer'], 'lanczos_params': {'N_min': 2, 'N_max': 20},
              'max_trunc_err': None}  # small chi on purpose: do not abort on the truncation-error sanity check
        if cfg.get('combine') and fam != 'vumps':
            ap['combine'] = True
        if not cfg['fixed_sweeps'] and fam != 'vumps':
            for k in ('max_S_err', 'max_E_err'):
                if cfg.get(k) is not None:
                    ap[k] = cfg[k]
        if cfg.get('diag_method', 'default') != 'default' and fam != 'vumps':
            ap['diag_method'] = cfg['diag_method']
        if cfg.get('chi_list'):
            ap['chi_list'] = {int(k): v for k, v in cfg['chi_list']}
        if cfg['mixer']:
            ap['mixer_params'] = {'amplitude': 1.0e-5, 'decay': 2.0, 'disable_after': 2}  # tenpy's default amplitude
        if cfg['fixed_sweeps']:
            ap['min_sweeps'] = cfg['max_sweeps'] + 1
        if cfg.get('max_hours') is not None:
            ap['max_hours'] = cfg['max_hours']
        if fam == 'vumps':
            for k in ('mixer', 'mixer_params', 'lanczos_params', 'max_trunc_err'):
                ap.pop(k, None)
        params['algorithm_params'] = ap
        # measuring at checkpoints while the mixer is on needs canonicalize_before_measurement (documented):
        # psi has non-diagonal Schmidt values then
        params['measure_at_algorithm_checkpoints'] = bool(cfg['measure_at_checkpoints'])
        if cfg['measure_at_checkpoints'] and cfg['mixer']:
            if bc == 'infinite':
                # canonical_form() of an infinite MPS does not support the non-diagonal Schmidt values of a mixer
                params['measure_at_algorithm_checkpoints'] = False
            else:
                params['canonicalize_before_measurement'] = True
    else:
        ap = {'trunc_params': trunc, 'dt': cfg['dt'], 'N_steps': cfg['N_steps']}
        if cfg['order'] is not None:
            ap['order'] = cfg['order']
        if cfg['family'] in ('expmpo', 'tdexpmpo'):
            ap['compression_method'] = cfg['compression']
            ap['approximation'] = cfg['approximation']
        if cfg['family'].startswith('tdvp') or cfg['family'] == 'tdtdvp2':
            ap['lanczos_params'] = {'N_min': 2, 'N_max': 20}
        if cfg.get('start_time'):
            ap['start_time'] = cfg['start_time']
        if cfg.get('preserve_norm') is not None:
            ap['preserve_norm'] = cfg['preserve_norm']
        params['algorithm_params'] = ap
        params['final_time'] = cfg.get('start_time', 0.0) + cfg['dt'] * cfg['N_steps'] * cfg['n_outer']
        if fam in ('tdcorr', 'tdcorr_bk', 'spectral'):
            params['operator_t0'] = {'opname': 'Sz', 'i': L // 2}
            params['operator_t'] = 'Sz'
    if cfg['extra_measurements']:
        params['connect_measurements'] = [['tenpy.simulations.measurement', 'm_onsite_expectation_value',
                                           {'opname': 'Sz'}],
                                          ['tenpy.simulations.measurement', 'm_energy_MPO']]
        if cfg.get('wrapped_measurement'):
            import checks.c18_models  # noqa: F401
            # the documented "wrap" form with a user-chosen results_key, for a plain function and a psi method
            params['connect_measurements'] += [
                ['checks.c18_models', 'wrap constant_measurement', {'results_key': 'my_const', 'value': 7.0}],
                ['psi_method', 'wrap entanglement_entropy', {'results_key': 'S_wrapped'}],
                # a key that first appears at the second (or a later) measurement
                ['checks.c18_models', 'm_late'] + ([{'onset': cfg['late_onset']}]
                                                   if cfg.get('late_onset', 1) > 1 and not is_gs else [])]
            if not is_gs and cfg.get('truncerr_measurement'):
                # TruncationError objects as measurement values (tenpy stores them as <key>_eps / <key>_ov arrays)
                params['connect_measurements'].append(['checks.c18_models', 'm_trunc_err'])
    return params


# ---------------------------------------------------------------------------------------------
# canonical content of a results dictionary

SKIP_MEAS = ()


def _canon_bytes(a):
    a = np.ascontiguousarray(np.asarray(a)) + 0.0  # "+ 0.0" turns -0.0 into 0.0: equal values, equal bytes
    return repr((a.shape, str(a.dtype))).encode() + a.tobytes()


def psi_fingerprint(psi):
    h = hashlib.sha1()
    form = [None if f is None else tuple(float(x) for x in f) for f in psi.form]
    h.update(repr((int(psi.L), str(psi.bc), form, [int(c) for c in psi.chi])).encode())
    for i in range(psi.L):
        B = psi.get_B(i, form=None)
        h.update(repr(list(B.get_leg_labels())).encode())
        h.update(_canon_bytes(B.to_ndarray()))
    for S in psi._S:
        h.update(_canon_bytes(S.to_ndarray() if hasattr(S, 'to_ndarray') else S))
    return h.hexdigest()


def content_digest(data):
    """Digest of the semantically relevant part of a loaded results dict (None if it is not one)."""
    if isinstance(data, dict) and 'script_checkpoint' in data and 'psi' in data and 'resume_data' in data:
        # checkpoint of the algorithm-level script (checks/c18_engine.py)
        return hashlib.sha1(repr(('script', int(data['script_checkpoint']), sorted(data['resume_data']),
                                  psi_fingerprint(data['psi']))).encode()).hexdigest()
    if not isinstance(data, dict) or 'simulation_parameters' not in data or 'finished_run' not in data:
        return None
    h = hashlib.sha1()
    h.update(repr(bool(data['finished_run'])).encode())
    meas = data.get('measurements', {})
    for k in sorted(meas):
        v = meas[k]
        h.update(k.encode())
        try:
            a = np.asarray(v)
        except ValueError:  # ragged list (e.g. the first measurement has another shape): element by element
            a = None
        if a is not None and a.dtype != object:
            h.update(_canon_bytes(a))
        else:
            for x in v:
                try:
                    ax = np.asarray(x)
                    if ax.dtype == object:
                        raise TypeError
                    h.update(_canon_bytes(ax))
                except Exception:  # noqa: BLE001  (arbitrary objects, e.g. TruncationError: their repr)
                    h.update(repr(x).encode())
    if 'energy' in data:
        h.update(repr(complex(data['energy'])).encode())
    rd = data.get('resume_data', {})
    if 'sweeps' in rd:
        h.update(repr(('sweeps', int(rd['sweeps']))).encode())
    if 'evolved_time' in rd:
        h.update(repr(('evolved_time', complex(rd['evolved_time']))).encode())
    psi = data.get('psi')
    if psi is not None:
        h.update(psi_fingerprint(psi).encode())
    return h.hexdigest()


# ---------------------------------------------------------------------------------------------
class World:
    """One simulated machine: a file system that survives crashes, plus per-segment clock and faults."""

    def __init__(self, cfg):
        self.cfg = cfg
        self.fs = simfs.SimFS()
        self.saves = []  # completed saves over the whole history: dicts(marker, path, sha1, content, segment)
        self.segment = -1
        self.delivery_points = 0
        self.sigint_at = set()
        self.sigints_delivered = 0
        self.sigterm_at = set()
        self.sigterms_delivered = 0
        self.kill_after_sigint = None
        self.clock = None
        self.probes = {}
        self.checkpoints_seen = 0
        self.wall_end = None  # wall-clock time at which the previous simulated process ended
        self.downtime = 0.0
        self.violations = []  # raised by the seams themselves (reported by the driver after the segment)
        self.last_load_error = None

    def probe(self, name, n=1):
        self.probes[name] = self.probes.get(name, 0) + n

    # -- seams -------------------------------------------------------------------------------
    def _deliver(self, where):
        self.delivery_points += 1
        if self.delivery_points in self.sigterm_at:
            # SIGTERM (what a batch system sends before it kills the job): whatever handler the code under test
            # has registered runs here; with the default action the process is gone at once
            self.sigterms_delivered += 1
            self.probe('fault_fired:sigterm')
            self.probe('sigterm_delivered_at:' + where)
            handler = signal.getsignal(signal.SIGTERM)
            if callable(handler):
                self.probe('sigterm_handler_of_the_code_under_test_called')
                handler(signal.SIGTERM, None)
            else:
                self.fs.frozen = True
                raise simfs.SimCrash('SIGTERM, default action')
        if self.delivery_points in self.sigint_at:
            self.sigints_delivered += 1
            self.probe('fault_fired:sigint')
            self.probe('sigint_delivered_at:' + where)
            if self.kill_after_sigint is not None and self.fs.crash_at is None:
                # compound fault: the process is killed m file-system ops after the (graceful) SIGINT,
                # i.e. typically inside the save that the SIGINT triggers at the next checkpoint
                self.fs.crash_at = self.fs.n_mut + self.kill_after_sigint[0]
                self.fs.crash_tear = self.kill_after_sigint[1]
            handler = signal.getsignal(signal.SIGINT)
            if callable(handler):
                handler(signal.SIGINT, None)

    def _wrapped_save(self, real_save):
        """Ground truth for I1: every save *attempt* is registered with the content digest of the data being
        saved; when the real save returns, the file is read back through the real loader and the attempt is
        marked completed.  An attempt that raised after its bytes were written (error on close) stays
        unacknowledged but its content is known, so a file holding it is recognised as a complete checkpoint."""
        world = self

        def save(data, filename, mode='w'):
            world.probe('save_started')
            path = simfs.norm(filename)
            entry = {'marker': None, 'path': path, 'sha1': None, 'content': content_digest(data),
                     'segment': world.segment, 'size': None, 'completed': False}
            world.saves.append(entry)
            real_save(data, filename, mode)
            if world.fs.frozen:
                return
            raw = bytes(world.fs.files[path])
            try:
                loaded = content_digest(world.load_bytes(path, raw))
            except Exception as e:  # noqa: BLE001
                loaded = None
                world.probe('completed_save_does_not_load')
                world.last_load_error = f'{type(e).__name__}: {e}'
            if loaded is not None and loaded != entry['content']:
                world.probe('loaded_content_differs_from_saved_data')
                loaded = None
            if loaded is None:
                entry['content'] = None
                world.violations.append({'invariant': 'disk.save_succeeded_but_file_does_not_load',
                                         'detail': f'save of {path} returned normally, but the file it left does not '
                                                   f'load as the data that was saved ({getattr(world, "last_load_error", "content differs")})'})
            entry.update({'marker': world.fs.n_mut, 'sha1': hashlib.sha1(raw).hexdigest(), 'size': len(raw),
                          'completed': loaded is not None})
            world.probe('save_completed')
        return save

    def load_bytes(self, path, raw):
        """Load `raw` as if it were the content of `path` (extension decides the format), real loader."""
        import tenpy.tools.hdf5_io as h5mod
        tmpfs = simfs.SimFS()
        tmpfs.files[path] = bytearray(raw)
        with simfs.LoadOnly(tmpfs):
            return h5mod.load(path)

    # -- running one segment -----------------------------------------------------------------
    def run_segment(self, start, fault=None, clock_seed=0, max_clock_reads=None):
        """start: ('fresh', params) or ('resume', filename).  Returns dict(outcome, results, error)."""
        import tenpy
        import tenpy.simulations.simulation as sim_mod
        import tenpy.tools.hdf5_io as h5mod
        import tenpy.tools.math as math_mod
        import tenpy.version as ver_mod
        self.segment += 1
        fs = self.fs
        fs.epoch += 1  # a new process: whatever file objects the previous one left behind are dead
        fs.frozen = False
        fs.crash_at = None
        fs.crash_tear = None
        fs.error_at = {}
        fs.diskfull_at = None
        fs.full = False  # the user freed some space before restarting
        self.sigint_at = set()
        self.sigterm_at = set()
        self.kill_after_sigint = None
        self.delivery_points = 0
        base = fs.n_mut
        if fault is not None:
            kind = fault['kind']
            if kind == 'kill':
                fs.crash_at = base + fault['at_op']
                fs.crash_tear = fault.get('tear')
            elif kind == 'oserror':
                fs.error_at[base + fault['at_op']] = fault['errno']
            elif kind == 'diskfull':
                fs.diskfull_at = base + fault['at_op']
                fs.diskfull_frac = fault.get('frac', 0.5)
            elif kind == 'sigint':
                self.sigint_at = set(fault['at'])
            elif kind == 'sigterm':
                self.sigterm_at = set(fault['at'])
            elif kind == 'sigint_kill':
                self.sigint_at = set(fault['at'])
                self.kill_after_sigint = (fault['kill_after_ops'], fault.get('tear'))
        self.clock = SimClock(clock_seed, self.cfg['clock'], on_read=self._deliver)
        self.clock.max_reads = max_clock_reads
        if self.wall_end is not None:
            # the wall clock goes on while the process is dead: the restarted process starts later by a down time
            # of a second, an hour or two days (a cluster job resubmitted the next day)
            self.downtime = random.Random(clock_seed ^ 0x5DEECE66D).choice([1.0, 1.0, 3600.0, 172800.0])
            self.clock.now = self.wall_end + self.downtime
        # hidden randomness owned by the simulated process: numpy's global generator and ARPACK's internal
        # start-vector generator (Fortran state that survives across calls within a real process)
        np.random.seed(clock_seed % (2**32))
        arpack = _ArpackSeam(clock_seed)
        out = {'outcome': None, 'results': None, 'error': None, 'ops_in_segment': 0}
        real_save = h5mod.save
        saved_git = ver_mod._get_git_revision
        old_handler = signal.getsignal(signal.SIGINT)
        old_term_handler = signal.getsignal(signal.SIGTERM)
        with simfs.Installed(fs, self.clock, deliver=self._deliver), \
                contextlib.redirect_stderr(_DEVNULL), contextlib.redirect_stdout(_DEVNULL):
            h5mod.save = self._wrapped_save(real_save)
            ver_mod._get_git_revision = lambda cwd=None: 'stubbed'
            saved_scipy = math_mod.scipy
            math_mod.scipy = arpack
            try:
                kwargs = {'setup_logging': False}
                if start[0] == 'engine_fresh':
                    from checks import c18_engine
                    out['results'] = c18_engine.script_fresh(self, start[1], start[2] if len(start) > 2 else None)
                elif start[0] == 'engine_resume':
                    from checks import c18_engine
                    out['results'] = c18_engine.script_resume(self, start[1], start[2])
                elif start[0] == 'fresh':
                    out['results'] = tenpy.run_simulation(simulation_class_kwargs=kwargs, **_deepcopy(start[1]))
                elif len(start) > 2 and start[2] == 'from_saved_checkpoint':
                    # the class-method route: SimClass.from_saved_checkpoint(filename) + `with sim: sim.resume_run()`
                    from tenpy.tools.misc import find_subclass
                    SimClass = find_subclass(sim_mod.Simulation, ENGINES[self.cfg['family']][0])
                    sim = SimClass.from_saved_checkpoint(filename=start[1], **kwargs)
                    with sim:
                        out['results'] = sim.resume_run()
                elif len(start) > 2 and start[2] == 'checkpoint_results':
                    # the user loads the file himself and hands over the dictionary
                    data = h5mod.load(start[1])
                    out['results'] = tenpy.resume_from_checkpoint(checkpoint_results=data,
                                                                  simulation_class_kwargs=kwargs)
                else:
                    out['results'] = tenpy.resume_from_checkpoint(filename=start[1], simulation_class_kwargs=kwargs)
                out['outcome'] = 'finished'
            except SimCrash:
                out['outcome'] = 'killed'
            except SystemExit as e:
                out['outcome'] = 'exited'  # the process ended itself (e.g. from a signal handler)
                out['error'] = f'SystemExit({e.code})'
            except SimLiveness as e:
                out['outcome'] = 'no_progress'
                out['error'] = str(e)
            except KeyboardInterrupt as e:
                out['outcome'] = 'keyboard_interrupt'
                out['error'] = str(e)[:100]
            except Exception as e:  # noqa: BLE001
                if fs.frozen:
                    out['outcome'] = 'killed'  # e.g. libhdf5 turned the crash into an error while unwinding
                else:
                    out['outcome'] = 'exception'
                    tb = traceback.extract_tb(e.__traceback__)
                    site = next((f for f in reversed(tb) if '/tenpy/' in f.filename), tb[-1])
                    out['error'] = {'type': type(e).__name__, 'msg': str(e)[:300],
                                    'function': site.name, 'file': site.filename.split('/tenpy/')[-1],
                                    'injected': bool(fs.errors_fired)}
            finally:
                h5mod.save = real_save
                ver_mod._get_git_revision = saved_git
                math_mod.scipy = saved_scipy
                signal.signal(signal.SIGINT, old_handler)
                signal.signal(signal.SIGTERM, old_term_handler if old_term_handler is not None else signal.SIG_DFL)
        self.wall_end = self.clock.now
        out['ops_in_segment'] = fs.n_mut - base
        out['clock_reads'] = self.clock.reads
        out['delivery_points'] = self.delivery_points
        for k, v in self.clock.jumps.items():
            if v:
                self.probe('clock_jump_' + k, v)
        fs.frozen = False
        return out


class _ArpackSeam:
    """Stand-in for the name `scipy` inside tenpy/tools/math.py: eigs / eigsh get an explicit, seeded start
    vector when the caller gave none (ARPACK would otherwise draw it from its process-wide Fortran generator,
    which makes results depend on what ran earlier in the same real process)."""

    def __init__(self, seed):
        import scipy
        import scipy.sparse.linalg
        self._scipy = scipy
        self._rng = np.random.RandomState(seed % (2**32))
        seam = self

        class _Linalg:
            def __getattr__(self, name):
                return getattr(scipy.sparse.linalg, name)

            @staticmethod
            def eigs(A, k=6, *args, **kwargs):
                if kwargs.get('v0') is None and len(args) < 4:
                    kwargs['v0'] = seam._v0(A)
                return scipy.sparse.linalg.eigs(A, k, *args, **kwargs)

            @staticmethod
            def eigsh(A, k=6, *args, **kwargs):
                if kwargs.get('v0') is None and len(args) < 4:
                    kwargs['v0'] = seam._v0(A)
                return scipy.sparse.linalg.eigsh(A, k, *args, **kwargs)

        class _Sparse:
            linalg = _Linalg()

            def __getattr__(self, name):
                return getattr(scipy.sparse, name)

        self.sparse = _Sparse()

    def _v0(self, A):
        n = A.shape[0]
        v = self._rng.standard_normal(n)
        if np.issubdtype(getattr(A, 'dtype', np.dtype(float)), np.complexfloating):
            v = v + 1j * self._rng.standard_normal(n)
        return v

    def __getattr__(self, name):
        return getattr(self._scipy, name)


def _deepcopy(x):
    import copy
    return copy.deepcopy(x)
