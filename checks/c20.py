"""C20 driver: seeded search over operation histories, schedules and faults for caches, the Worker
contract and event handlers; minimisation, replay files, evidence."""

import argparse
import collections
import copy
import json
import os
import subprocess
import sys
import time

from sim import core, ddmin
from checks import c20_cache, c20_client, c20_events, c20_worker

PROP = 'C20'
WORKLOADS = {'cache': c20_cache, 'worker': c20_worker, 'events': c20_events, 'client': c20_client}

# (workload, fault_mode, share of the tier's run budget)
MIX = [
    ('cache', 'none', 0.30), ('cache', 'stall', 0.08), ('cache', 'kill', 0.08), ('cache', 'io', 0.16),
    ('worker', 'none', 0.10), ('worker', 'task_raises', 0.08), ('worker', 'kill', 0.04), ('worker', 'stall', 0.04),
    ('events', 'none', 0.12),
]
# the real-client workload (DMRG under a threaded cache / DMRGThreadPlusHC) costs ~1-3 s per run: fixed counts
CLIENT_RUNS = {'quick': {'none': 36, 'stall': 18, 'io': 18}, 'thorough': {'none': 1200, 'stall': 500, 'io': 500}}
CLIENT_CHUNK = 3
BUDGET = {'quick': 130000, 'thorough': 4000000}
WALL_CAP = {'quick': 100.0, 'thorough': 1500.0}
CHUNK = 400
SET_ORDER_OPS = {'clear', 'items', 'popitem', 'values'}  # their effect order follows set iteration order (PYTHONHASHSEED)


def plan_for(workload, fault_mode, verif_seed, i):
    run_seed = core.derive_seed(verif_seed, f'{PROP}:{workload}:{fault_mode}', i)
    return WORKLOADS[workload].gen_plan(run_seed, fault_mode)


def nontrivial(workload, plan, r):
    if r.get('skipped'):
        return False
    if workload == 'client':
        return r['switches'] > 0
    if workload == 'events' or (workload == 'cache' and not plan['cfg']['threaded']):
        return len(r.get('trace', ())) >= 3
    return r['switches'] > 0 or bool(r['faults_fired']) or any(k.startswith('fault_fired') for k in r['probes'])


def run_chunk(item, ctx):
    workload, fault_mode, start, count = item
    verif_seed = ctx['seed']
    mod = WORKLOADS[workload]
    core.quiet_tenpy()
    sd = core.scratch_dir('c20')
    agg = {'item': item, 'runs': 0, 'nontrivial': set(), 'sigs': set(), 'states': set(),
           'probes': collections.Counter(), 'steps': 0, 'switches': 0, 'vtime': 0.0, 'violations': [], 'samples': [],
           'selftest': {'twice': 0, 'replayed': 0, 'mismatch': []}, 'ops': 0, 'skipped': 0, 'digests': [],
           'agg': 0}
    try:
        for i in range(start, start + count):
            plan = plan_for(workload, fault_mode, verif_seed, i)
            r = mod.execute(plan, sd)
            agg['runs'] += 1
            agg['agg'] = (agg['agg'] + core.h64((workload, fault_mode, i, r['log_digest']))) % (1 << 64)
            agg['ops'] += len(plan['ops'])
            if r.get('skipped'):
                agg['skipped'] += 1
            if nontrivial(workload, plan, r):
                agg['nontrivial'].add(core.h64((workload, r['log_digest'])))
            if r['switches']:
                agg['sigs'].add(r['sig'])
            agg['states'].update(r['states'])
            agg['probes'].update(r['probes'])
            for f in r['faults_fired']:
                pass
            agg['steps'] += r['steps']
            agg['switches'] += r['switches']
            agg['vtime'] += r['vtime']
            if ctx.get('digests'):
                agg['digests'].append([workload, fault_mode, i, r['log_digest'],
                                       not (SET_ORDER_OPS & {o[0] for o in plan['ops']})])
            if r['violation'] is not None and len(agg['violations']) < 3:
                agg['violations'].append({'workload': workload, 'fault_mode': fault_mode, 'index': i, 'plan': plan,
                                          'violation': r['violation'], 'decisions': r['decisions'],
                                          'jitters': r['jitters']})
            if len(agg['samples']) < 1 and i == start and nontrivial(workload, plan, r):
                agg['samples'].append({'workload': workload, 'fault_mode': fault_mode, 'index': i,
                                       'cfg': plan['cfg'], 'ops': plan['ops'][:12],
                                       'faults': plan.get('faults'), 'kills': plan.get('kills'),
                                       'stalls': plan.get('stalls'), 'outcomes': r['trace'][:12],
                                       'context_switches': r['switches'], 'virtual_seconds': r['vtime']})
            # determinism self-test on a sample: same seed twice, and replay from the recorded decisions
            if ctx.get('selftest_every') and (i - start) % ctx['selftest_every'] == 0:
                r2 = mod.execute(plan, sd)
                agg['selftest']['twice'] += 1
                r3 = mod.execute(plan, sd, decisions=r['decisions'], jitters=r['jitters'])
                agg['selftest']['replayed'] += 1
                if r2['log_digest'] != r['log_digest'] or r3['log_digest'] != r['log_digest']:
                    agg['selftest']['mismatch'].append([workload, fault_mode, i])
    finally:
        core.rm_scratch(sd)
    agg['nontrivial'] = sorted(agg['nontrivial'])
    agg['sigs'] = sorted(agg['sigs'])
    agg['states'] = sorted(agg['states'])
    agg['probes'] = dict(agg['probes'])
    return agg


def violation_class(v):
    f = v.get('facts', {})
    return (v['invariant'], f.get('op'), f.get('expected'), f.get('got'))


def reproduce(workload, plan, want_class, sd, decisions=None, jitters=None, seeds=4):
    """Does the plan still produce a violation of the same class?  Tries a few schedule seeds."""
    mod = WORKLOADS[workload]
    if decisions is not None:
        r = mod.execute(plan, sd, decisions=decisions, jitters=jitters)
        return r if (r['violation'] and violation_class(r['violation']) == want_class) else None
    base = plan['sched_seed']
    for k in range(seeds):
        p = plan if k == 0 else dict(plan, sched_seed=core.sub_seed(base, f'retry{k}'))
        r = mod.execute(p, sd)
        if r['violation'] and violation_class(r['violation']) == want_class:
            r['plan_used'] = p
            return r
    return None


def minimise(found, sd):
    workload, plan = found['workload'], found['plan']
    want = violation_class(found['violation'])
    # coarser class for shrinking: the same invariant on the same kind of operation
    want_coarse = want[:2]

    def cls(v):
        return violation_class(v)[:2]

    mod = WORKLOADS[workload]

    def fails(p):
        base = p['sched_seed']
        for k in range(3):
            q = p if k == 0 else dict(p, sched_seed=core.sub_seed(base, f'retry{k}'))
            r = mod.execute(q, sd)
            if r['violation'] and cls(r['violation']) == want_coarse:
                p['sched_seed'] = q['sched_seed']
                return True
        return False

    def simp_sync(p):
        if p['cfg'].get('granularity') == 'line':
            p['cfg']['granularity'] = 'sync'
            return p
        return None

    def simp_nojitter(p):
        if p['cfg'].get('p_jitter'):
            p['cfg']['p_jitter'] = 0.0
            return p
        return None

    def simp_unthreaded(p):
        if p['cfg'].get('threaded'):
            p['cfg']['threaded'] = False
            return p
        return None

    def simp_storage(p):
        if p['cfg'].get('storage') not in (None, 'Storage', 'PickleStorage') and p['cfg'].get('value_kind') not in (
                'ndarray', 'npc'):
            p['cfg']['storage'] = 'PickleStorage'
            return p
        return None

    def simp_trivial_storage(p):
        if p['cfg'].get('storage') == 'PickleStorage' and not p['cfg'].get('threaded'):
            p['cfg']['storage'] = 'Storage'
            return p
        return None

    best = ddmin.minimise_plan(plan, fails, simplifications=(simp_sync, simp_nojitter, simp_unthreaded, simp_storage,
                                                             simp_trivial_storage))
    r = mod.execute(best, sd)
    if not (r['violation'] and cls(r['violation']) == want_coarse):
        # flaky w.r.t. schedule seed retry bookkeeping: fall back to the original
        best = plan
        r = mod.execute(best, sd)
    decisions, jitters = r['decisions'], r['jitters']
    # shrink the explicit decision / jitter lists under replay
    if r['violation']:
        def dec_fails(c):
            rr = mod.execute(best, sd, decisions=c, jitters=jitters)
            return bool(rr['violation'] and cls(rr['violation']) == want_coarse)

        if decisions and dec_fails(decisions):
            decisions = ddmin.ddmin_list(decisions, dec_fails, max_tests=200)

            def jit_fails(c):
                rr = mod.execute(best, sd, decisions=decisions, jitters=c)
                return bool(rr['violation'] and cls(rr['violation']) == want_coarse)

            if jitters and jit_fails(jitters):
                jitters = ddmin.ddmin_list(jitters, jit_fails, max_tests=100)
        rr = mod.execute(best, sd, decisions=decisions, jitters=jitters)
        if rr['violation'] and cls(rr['violation']) == want_coarse:
            r = rr
        else:
            decisions, jitters = r['decisions'], r['jitters']
    return best, decisions, jitters, r


def replay_file(path):
    with open(path) as f:
        payload = json.load(f)
    core.quiet_tenpy()
    sd = core.scratch_dir('c20r')
    try:
        mod = WORKLOADS[payload['workload']]
        r = mod.execute(payload['plan'], sd, decisions=payload['decisions'], jitters=payload['jitters'])
    finally:
        core.rm_scratch(sd)
    v = r['violation']
    print(json.dumps({'replayed': path, 'violation': v, 'log_digest': r['log_digest'],
                      'expected_digest': payload.get('log_digest')}, indent=1, default=repr))
    if v is not None:
        same = r['log_digest'] == payload.get('log_digest')
        print(f'VIOLATION property={PROP} replay={path}' + ('' if same else '  (digest differs from recording)'))
        return 1
    print('replay: no violation on this tree')
    return 0


def fresh_interpreter_digests(seed, items, hashseed):
    """Re-run a sample of runs in a fresh interpreter under another PYTHONHASHSEED; returns digests."""
    env = dict(os.environ, VERIF_HASHSEED=str(hashseed), VERIF_SEED=str(seed))
    cmd = [os.path.join(core.VERIF, 'check'), PROP, '--digests', json.dumps(items)]
    out = subprocess.run(cmd, cwd=core.VERIF, env=env, capture_output=True, text=True, timeout=600)
    if out.returncode != 0:
        raise core.HarnessError(f'fresh-interpreter digest run failed: {out.stderr[-2000:]}')
    return json.loads(out.stdout.strip().splitlines()[-1])


def digests_only(seed, items):
    core.quiet_tenpy()
    sd = core.scratch_dir('c20d')
    out = []
    try:
        for workload, fault_mode, i in items:
            plan = plan_for(workload, fault_mode, seed, i)
            r = WORKLOADS[workload].execute(plan, sd)
            out.append([workload, fault_mode, i, r['log_digest']])
    finally:
        core.rm_scratch(sd)
    print(json.dumps(out))
    return 0


def main(argv=None):
    ap = argparse.ArgumentParser()
    ap.add_argument('--tier', default=os.environ.get('VERIF_TIER', 'quick'), choices=['quick', 'thorough'])
    ap.add_argument('--replay')
    ap.add_argument('--digests')
    ap.add_argument('--runs', type=int, default=None, help='override the run budget')
    ap.add_argument('--wall', type=float, default=None, help='override the wall-clock cap (s)')
    ap.add_argument('--only', default=None, help='restrict to one workload')
    args = ap.parse_args(argv)
    seed = int(os.environ.get('VERIF_SEED', '0'))
    if args.replay:
        return replay_file(args.replay)
    if args.digests:
        return digests_only(seed, json.loads(args.digests))
    tier = args.tier
    t0 = time.time()
    print(f'C20 tier={tier} VERIF_SEED={seed} PYTHONHASHSEED={os.environ.get("PYTHONHASHSEED")}', flush=True)
    budget = args.runs or BUDGET[tier]
    wall_cap = args.wall or WALL_CAP[tier]
    nproc = core.nproc_default()
    items = []
    per_mix = []
    for workload, fm, share in MIX:
        if args.only and workload != args.only:
            continue
        n = max(CHUNK, int(budget * share))
        per_mix.append((workload, fm, n))
    # interleave the mixes so that a wall cap cuts all of them proportionally
    if not args.only or args.only == 'client':
        scale = 1.0 if not args.runs else min(1.0, args.runs / BUDGET[tier])
        for fm, n in CLIENT_RUNS[tier].items():
            per_mix.append(('client', fm, max(CLIENT_CHUNK, int(n * scale))))
    cursors = {(w, fm): 0 for w, fm, n in per_mix}
    remaining = True
    while remaining:
        remaining = False
        for w, fm, n in per_mix:
            c = cursors[(w, fm)]
            if c < n:
                cnt = min(CLIENT_CHUNK if w == 'client' else CHUNK, n - c)
                items.append((w, fm, c, cnt))
                cursors[(w, fm)] = c + cnt
                remaining = True
    ctx = {'seed': seed, 'selftest_every': 100 if tier == 'quick' else 200, 'digests': True}
    tot = {'runs': 0, 'nontrivial': set(), 'sigs': set(), 'states': set(), 'probes': collections.Counter(),
           'steps': 0, 'switches': 0, 'vtime': 0.0, 'ops': 0, 'skipped': 0, 'agg': 0}
    by_mix = collections.Counter()
    violations = []
    samples = []
    selftest = {'twice': 0, 'replayed': 0, 'mismatch': []}
    digest_sample = []

    def on_result(agg):
        tot['runs'] += agg['runs']
        tot['agg'] = (tot['agg'] + agg['agg']) % (1 << 64)
        tot['ops'] += agg['ops']
        tot['skipped'] += agg['skipped']
        tot['nontrivial'].update(agg['nontrivial'])
        tot['sigs'].update(agg['sigs'])
        tot['states'].update(agg['states'])
        tot['probes'].update(agg['probes'])
        tot['steps'] += agg['steps']
        tot['switches'] += agg['switches']
        tot['vtime'] += agg['vtime']
        by_mix[f"{agg['item'][0]}/{agg['item'][1]}"] += agg['runs']
        violations.extend(agg['violations'])
        if len(samples) < 6:
            samples.extend(agg['samples'])
        for k in ('twice', 'replayed'):
            selftest[k] += agg['selftest'][k]
        selftest['mismatch'].extend(agg['selftest']['mismatch'])
        if len(digest_sample) < 400:
            digest_sample.extend(agg['digests'][:8])

    n_done, harness_errors, stopped = core.run_pool(
        'checks.c20', 'run_chunk', items, ctx, nproc, chunk=1, per_run_timeout=600, wall_cap=wall_cap,
        on_result=on_result, stop_on=lambda agg: len(violations) >= 40)
    explore_wall = time.time() - t0

    # ---- regression replays of fixed findings: a fixed entry suppresses nothing
    regressions = {'replayed': 0, 'failing': []}
    regdir = os.path.join(core.VERIF, 'regressions')
    if os.path.isdir(regdir):
        core.quiet_tenpy()
        sdr = core.scratch_dir('c20g')
        try:
            for name in sorted(os.listdir(regdir)):
                if not (name.startswith(PROP + '-') and name.endswith('.json')):
                    continue
                path = os.path.join(regdir, name)
                with open(path) as f:
                    payload = json.load(f)
                plan = payload['plan']
                mod = WORKLOADS[payload['workload']]
                hit = None
                # once with the recorded schedule, then with a few fresh schedule seeds
                rr = mod.execute(plan, sdr, decisions=payload['decisions'], jitters=payload['jitters'])
                if rr['violation']:
                    hit = rr
                for k in range(20):
                    if hit:
                        break
                    rr = mod.execute(dict(plan, sched_seed=core.sub_seed(seed, f'reg{k}')), sdr)
                    if rr['violation']:
                        hit = rr
                regressions['replayed'] += 1
                if hit:
                    regressions['failing'].append(path)
                    violations.append({'workload': payload['workload'], 'fault_mode': plan.get('fault_mode'),
                                       'index': -1, 'plan': plan, 'violation': hit['violation'],
                                       'decisions': hit['decisions'], 'jitters': hit['jitters']})
        finally:
            core.rm_scratch(sdr)

    # ---- determinism across interpreters / hash seeds (sample)
    xproc = {'checked': 0, 'checked_other_hashseed': 0, 'mismatch': []}
    if not harness_errors and digest_sample:
        sample = digest_sample[:120 if tier == 'quick' else 400]
        try:
            same = fresh_interpreter_digests(seed, [s[:3] for s in sample], os.environ.get('PYTHONHASHSEED', '0'))
            other = fresh_interpreter_digests(seed, [s[:3] for s in sample if s[4]], '12345')
            ref = {tuple(s[:3]): s[3] for s in sample}
            for w, fm, i, d in same:
                xproc['checked'] += 1
                if ref[(w, fm, i)] != d:
                    xproc['mismatch'].append([w, fm, i, 'fresh interpreter'])
            for w, fm, i, d in other:
                xproc['checked_other_hashseed'] += 1
                if ref[(w, fm, i)] != d:
                    xproc['mismatch'].append([w, fm, i, 'other PYTHONHASHSEED'])
        except Exception as e:  # noqa: BLE001
            harness_errors.append({'harness_error': f'cross-interpreter determinism test failed to run: {e!r}'})
    if selftest['mismatch'] or xproc['mismatch']:
        harness_errors.append({'harness_error': f'non-deterministic runs: in-process {selftest["mismatch"][:5]} '
                                                f'cross-process {xproc["mismatch"][:5]}'})

    # ---- violations: dedupe, minimise, replay files, known findings
    known = core.load_known_findings(PROP)
    reported = []
    exit_code = 0
    seen_classes = {}
    for fnd in violations:
        c = violation_class(fnd['violation'])[:2]
        seen_classes.setdefault(c, fnd)
    sd = core.scratch_dir('c20m')
    core.quiet_tenpy()
    try:
        for c, fnd in list(seen_classes.items())[:8]:
            try:
                best, decisions, jitters, r = minimise(fnd, sd)
            except Exception as e:  # noqa: BLE001
                harness_errors.append({'harness_error': f'minimiser failed: {e!r}'})
                best, decisions, jitters = fnd['plan'], fnd['decisions'], fnd['jitters']
                r = WORKLOADS[fnd['workload']].execute(best, sd, decisions=decisions, jitters=jitters)
            v = r['violation'] or fnd['violation']
            payload = {'property': PROP, 'workload': fnd['workload'], 'plan': best, 'decisions': decisions,
                       'jitters': jitters, 'violation': v, 'log_digest': r['log_digest'],
                       'found_at': {'verif_seed': seed, 'fault_mode': fnd['fault_mode'], 'index': fnd['index']},
                       'pythonhashseed': os.environ.get('PYTHONHASHSEED'),
                       'replay_cmd': './check C20 --replay <this file>'}
            kf = core.match_known(v, known)
            path = core.write_replay(PROP, payload)
            if kf is not None:
                print(f"KNOWN-FINDING: property={PROP} {kf['id']}: {kf['what']}")
                reported.append({'known': kf['id'], 'invariant': v['invariant']})
            else:
                print(f"VIOLATION property={PROP} replay={path}")
                print(f"  invariant={v['invariant']} detail={v['detail'][:300]}")
                print(f"  minimised ops={json.dumps(best['ops'])[:600]} cfg={json.dumps(best['cfg'])[:300]}")
                reported.append({'violation': v['invariant'], 'replay': path})
                exit_code = 1
    finally:
        core.rm_scratch(sd)

    wall = time.time() - t0
    fired = {k: v for k, v in tot['probes'].items() if k.startswith('fault_fired')}
    probes = {k: v for k, v in tot['probes'].items() if not k.startswith('fault_fired')}
    coverage = {
        'evaluations': tot['runs'],
        'distinct_nontrivial': len(tot['nontrivial']),
        'rule': ('one evaluation = one simulated run: a seeded operation history (cache: 4-40 dict operations over '
                 '<=4 keys and <=4 (sub-)caches on one of 5 storage classes, optionally behind ThreadedStorage; '
                 'worker: put_task/join_tasks/__exit__ sequences; events: connect/disconnect/emit/copy sequences; '
                 'client: a finite DMRG run whose environments live in a threaded Pickle/HDF5 cache and/or whose '
                 'matvec is split with a Worker thread, compared with the in-RAM / serial run) '
                 'executed against real tenpy code under the simulated scheduler with a seeded schedule and fault '
                 'plan, every return value compared with a reference model. Non-trivial: at least one context '
                 'switch between caller and worker happened inside the history or a fault fired (threaded '
                 'workloads), or at least three operations were compared with the model (unthreaded cache, events). '
                 'Distinct: by digest of (interleaving log, per-operation outcomes).'),
        'samples': samples[:4],
        'runs_by_workload_and_fault_mode': dict(by_mix),
        'operations_checked_against_model': tot['ops'],
        'distinct_interleaving_signatures': len(tot['sigs']),
        'distinct_abstract_states': len(tot['states']),
        'abstract_state_definition': '(op kind, closed, queue length, unfinished tasks (capped 4), worker thread '
                                     'state, exit flag, |_waiting_for_load|, |_loaded|) at each operation boundary',
        'scheduler_steps': tot['steps'],
        'context_switches': tot['switches'],
        'simulated_seconds': round(tot['vtime'], 1),
        'runs_per_hour': int(tot['runs'] / max(explore_wall, 1e-9) * 3600),
        'faults_fired': fired,
        'probes_hit': probes,
        'runs_skipped_open_failed_by_fault': tot['skipped'],
        'determinism_selftest': {'same_seed_twice_in_process': selftest['twice'],
                                 'replayed_from_recorded_decisions': selftest['replayed'],
                                 'fresh_interpreter_same_hashseed': xproc['checked'],
                                 'fresh_interpreter_other_hashseed': xproc['checked_other_hashseed'],
                                 'mismatches': len(selftest['mismatch']) + len(xproc['mismatch'])},
        'aggregate_digest_of_all_runs': '%016x' % tot['agg'],
        'stopped_by_wall_cap': bool(stopped),
        'processes': nproc,
        'real_code': ['tenpy.tools.cache.DictCache/CacheFile/Storage/PickleStorage/_NumpyStorage/_NpcArrayStorage/'
                      'Hdf5Storage/ThreadedStorage', 'tenpy.tools.thread.Worker (run loop on a real OS thread)',
                      'tenpy.tools.events.EventHandler', 'pickle', 'numpy.save/load', 'h5py + libhdf5',
                      'tmpfs files under /dev/shm'],
        'simulated_or_stubbed': ['queue.Queue', 'threading.Event', 'threading.Thread start/join/is_alive',
                                 'all time-outs (virtual time)',
                                 'the module-level loggers of tools/thread.py and tools/cache.py (recording proxy: an '
                                 'error report without an injected fault is a violation)',
                                 'shutil.rmtree / os.remove / open / pickle / numpy.save,load / save_to_hdf5 / '
                                 'load_from_hdf5 as seen from tools/cache.py (pass-through proxies that inject the '
                                 'planned I/O faults)', 'other tenpy logging (silenced)'],
        'regression_replays_of_fixed_findings': regressions,
        'reported': reported,
        'harness_errors': [h['harness_error'][-500:] for h in harness_errors[:5]],
    }
    assumptions = [
        'single caller thread (DictCache/EventHandler are not documented as safe for several callers)',
        'pre-emption only at synchronisation points and (line mode) at line boundaries of tools/cache.py and '
        'tools/thread.py; C extensions are atomic, as under the GIL',
        'PYTHONHASHSEED is fixed to 0 by ./check: set iteration order inside DictCache (clear(), items()) follows it',
        'after an injected I/O error the model is relaxed for the affected keys only (DESIGN.md 4.3)',
        'sampling, not enumeration: a clean batch is evidence, not proof',
    ]
    core.write_evidence(PROP, tier, seed, coverage, wall, sum(1 for r in reported if 'violation' in r), assumptions)
    print(f'C20: runs={tot["runs"]} distinct_nontrivial={len(tot["nontrivial"])} interleavings={len(tot["sigs"])} '
          f'states={len(tot["states"])} faults_fired={sum(fired.values())} wall={wall:.1f}s '
          f'({coverage["runs_per_hour"]} runs/h)', flush=True)
    if harness_errors:
        for h in harness_errors[:5]:
            print('HARNESS-ERROR:', h['harness_error'][-1500:])
        return 1 if exit_code == 1 else 2
    return exit_code


if __name__ == '__main__':
    sys.exit(main())
