"""C20, workload 3: EventHandler histories of connect / disconnect / emit / copy against a list model.

No scheduler is involved (EventHandler has no thread or clock in it); this is the "all sequences
of connect/disconnect/emit" half of the property's quantifier, generated and shrunk by the same
seeded machinery.
"""

import random
import warnings

from sim import core

TRACE = []  # filled by callbacks; reset per run


def named_target_a(*args, **kwargs):
    TRACE.append(['named_a', list(args), sorted(kwargs.items())])
    return None


def named_target_b(*args, **kwargs):
    TRACE.append(['named_b', list(args), sorted(kwargs.items())])
    return 'B'


def gen_plan(run_seed, fault_mode='none'):
    wl = random.Random(core.sub_seed(run_seed, 'workload'))
    n = wl.randint(2, 30)
    long_history = wl.random() < 0.04
    if long_history:
        n = wl.randint(300, 700)  # long-lived handler: several hundred listeners come and go
    prios = wl.choice([[0], [0, 1], [-100, 0, 5], [0, 0, 0, 1, 2, 3], [0.5, 0, -0.5, 2.5, 2]])
    p_none = wl.choice([1.0, 0.7, 0.3])
    ops = []
    n_handlers = 1
    n_cb = 0
    weights = {'connect': 4, 'deco': wl.choice([0, 1]), 'deco_prio': wl.choice([0, 1]), 'by_name': wl.choice([0, 1]),
               'disconnect': wl.choice([1, 3]), 'disconnect_bogus': wl.choice([0, 1]), 'emit': 3,
               'emit_until': wl.choice([0, 2]), 'copy': wl.choice([0, 1]), 'last_id': wl.choice([0, 1])}
    weights['disconnect_recent'] = wl.choice([0, 2]) if not long_history else 5
    # listeners that act on their handler while it emits (re-entrant use): disconnect themselves (one-shot
    # listeners), disconnect another listener, connect a new one
    weights['actor'] = wl.choice([0, 0, 1, 2]) if not long_history else 0
    if long_history:
        weights['copy'] = 0
        weights['emit'] = 1
    kinds = sorted(k for k, w in weights.items() if w)
    for _ in range(n):
        kind = wl.choices(kinds, [weights[k] for k in kinds])[0]
        h = wl.randrange(n_handlers)
        if kind == 'connect':
            n_cb += 1
            extra = wl.choice([None, None, {'x': n_cb}, {}])
            ops.append(['connect', h, n_cb, wl.choice(prios), extra, None if wl.random() < p_none else f'r{n_cb}'])
        elif kind == 'deco':
            n_cb += 1
            ops.append(['deco', h, n_cb, None if wl.random() < p_none else f'r{n_cb}'])
        elif kind == 'deco_prio':
            n_cb += 1
            ops.append(['deco_prio', h, n_cb, wl.choice(prios), None if wl.random() < p_none else f'r{n_cb}'])
        elif kind == 'by_name':
            n_cb += 1  # the unique extra kwarg makes two connections of the same function distinguishable
            ops.append(['by_name', h, wl.choice(['named_target_a', 'named_target_b']), wl.choice(prios),
                        {'y': n_cb}])
        elif kind == 'actor':
            n_cb += 1
            action = wl.choice([['self'], ['self'], ['id', wl.randrange(0, 8)], ['id', wl.randrange(0, 8)],
                                ['connect', wl.choice(prios)]])
            ops.append(['actor', h, n_cb, wl.choice(prios), action])
        elif kind == 'disconnect':
            ops.append(['disconnect', h, wl.randrange(0, 8)])
        elif kind == 'disconnect_recent':
            # the id is resolved when the op runs: the k-th most recently issued id of that handler
            ops.append(['disconnect', h, ['recent', wl.choice([0, 0, 1, 2, 5])]])
        elif kind == 'disconnect_bogus':
            ops.append(['disconnect', h, wl.randrange(50, 60)])
        elif kind == 'emit':
            ops.append(['emit', h, wl.randrange(100)])
        elif kind == 'emit_until':
            ops.append(['emit_until', h, wl.randrange(100)])
        elif kind == 'copy':
            if n_handlers < 3:
                ops.append(['copy', h])
                n_handlers += 1
        elif kind == 'last_id':
            ops.append(['last_id', h])
    return {'workload': 'events', 'run_seed': run_seed, 'cfg': {}, 'ops': ops, 'fault_mode': 'none',
            'sched_seed': 0}


class Violation(Exception):
    def __init__(self, invariant, detail, facts=None, op_index=None):
        super().__init__(invariant)
        self.info = {'invariant': invariant, 'detail': detail, 'facts': facts or {}, 'op_index': op_index}


def execute(plan, scratch_root=None, decisions=None, jitters=None):
    from tenpy.tools.events import EventHandler
    del TRACE[:]
    handlers = [EventHandler('arg')]
    models = [{'listeners': [], 'counter': 0}]  # listeners: [id, name, prio, extra, ret] in connection order
    trace = []
    res = {'violation': None}
    states = set()

    def make_cb(n, ret):
        def cb(*args, **kwargs):
            TRACE.append([f'cb{n}', list(args), sorted(kwargs.items())])
            return ret
        cb.__name__ = f'cb{n}'
        return cb

    def add(m, name, prio, extra, ret):
        m['listeners'].append([m['counter'], name, prio, dict(extra or {}), ret])
        m['counter'] += 1

    def make_actor(n, action, hidx, own):
        # a listener that uses the handler it is connected to while that handler emits; what it did is recorded
        # in the call trace, from which check_emit() updates the model
        def cb(*args, **kwargs):
            evh = handlers[hidx]
            with warnings.catch_warnings():
                warnings.simplefilter('ignore')
                if action[0] == 'self':
                    evh.disconnect(own['id'])
                    rec = ['disc', hidx, own['id']]
                elif action[0] == 'id':
                    evh.disconnect(action[1])
                    rec = ['disc', hidx, action[1]]
                else:
                    own['spawned'] = own.get('spawned', 0) + 1
                    name = f'cb{n}s{own["spawned"]}'
                    spawned = make_cb(0, None)
                    spawned_name = name

                    def spawned_cb(*a, _name=spawned_name, **kw):
                        TRACE.append([_name, list(a), sorted(kw.items())])
                        return None
                    del spawned
                    evh.connect(spawned_cb, action[1])
                    rec = ['conn', hidx, name, action[1]]
            TRACE.append([f'cb{n}', list(args), sorted(kwargs.items()), rec])
            return None
        cb.__name__ = f'cb{n}'
        return cb

    try:
        for i, op in enumerate(plan['ops']):
            kind, h = op[0], op[1]
            if h >= len(handlers):
                continue
            ev, m = handlers[h], models[h]
            facts = {'op': kind, 'n_listeners': len(m['listeners'])}
            states.add(core.h64((kind, tuple(sorted((li[0], li[2]) for li in m['listeners'])))))
            with warnings.catch_warnings(record=True) as wrec:
                warnings.simplefilter('always')
                try:
                    if kind == 'connect':
                        _, _, n, prio, extra, ret = op
                        cb = make_cb(n, ret)
                        r = ev.connect(cb, prio, None if extra is None else dict(extra))
                        if r is not cb:
                            raise Violation('events.connect_return', f'op {i}: connect() did not return the callback',
                                            facts, i)
                        add(m, f'cb{n}', prio, extra, ret)
                    elif kind == 'actor':
                        _, _, n, prio, action = op
                        own = {'id': m['counter']}
                        ev.connect(make_actor(n, list(action), h, own), prio)
                        add(m, f'cb{n}', prio, None, None)
                    elif kind == 'deco':
                        _, _, n, ret = op
                        cb = make_cb(n, ret)
                        r = ev.connect(cb)
                        add(m, f'cb{n}', 0, None, ret)
                    elif kind == 'deco_prio':
                        _, _, n, prio, ret = op
                        cb = make_cb(n, ret)
                        r = ev.connect(priority=prio)(cb)
                        if r is not cb:
                            raise Violation('events.connect_return', f'op {i}: decorator did not return the callback',
                                            facts, i)
                        add(m, f'cb{n}', prio, None, ret)
                    elif kind == 'by_name':
                        _, _, fname, prio, extra = op
                        ev.connect_by_name('checks.c20_events', fname, None if extra is None else dict(extra), prio)
                        add(m, fname.replace('_target', ''), prio, extra,
                            None if fname.endswith('_a') else 'B')
                    elif kind == 'disconnect':
                        lid = op[2]
                        if isinstance(lid, list):  # ['recent', k]
                            lid = m['counter'] - 1 - lid[1]
                            if lid < 0:
                                continue
                        present = [li for li in m['listeners'] if li[0] == lid]
                        ev.disconnect(lid)
                        facts.update({'id_present': bool(present), 'id': 'zero' if lid == 0 else 'nonzero'})
                        if present:
                            m['listeners'] = [li for li in m['listeners'] if li[0] != lid]
                        got_ids = sorted(li.listener_id for li in ev.listeners)
                        exp_ids = sorted(li[0] for li in m['listeners'])
                        if got_ids != exp_ids:
                            raise Violation('events.disconnect_removed_wrong_listener',
                                            f'op {i}: disconnect({lid}): remaining ids {got_ids}, expected {exp_ids}',
                                            facts, i)
                        if not present and not wrec:
                            raise Violation('events.disconnect_absent_no_warning',
                                            f'op {i}: disconnect({lid}) of an unknown id gave no warning', facts, i)
                    elif kind in ('emit', 'emit_until'):
                        del TRACE[:]
                        arg = op[2]
                        if kind == 'emit':
                            got = ev.emit(arg, kw=arg + 1)
                        else:
                            got = ev.emit_until_result(arg, kw=arg + 1)
                        calls = [list(c) for c in TRACE]
                        check_emit(i, kind, models, h, arg, got, calls, facts)
                        trace.append([i, [c[0] for c in calls]])
                    elif kind == 'copy':
                        cp = ev.copy()
                        handlers.append(cp)
                        models.append({'listeners': [list(li) for li in m['listeners']], 'counter': m['counter']})
                    elif kind == 'last_id':
                        try:
                            got = ev.id_of_last_connected
                        except ValueError:
                            got = 'ValueError'
                        exp = m['counter'] - 1 if m['counter'] else 'ValueError'
                        if got != exp:
                            raise Violation('events.id_of_last_connected', f'op {i}: got {got}, expected {exp}', facts,
                                            i)
                except Violation:
                    raise
                except Exception as e:  # noqa: BLE001
                    raise Violation('events.unexpected_exception', f'op {i} {op}: {type(e).__name__}: {e}', facts, i)
            # cross-invariant after each step: every handler's listener ids equal its model's
            for hh, (e2, m2) in enumerate(zip(handlers, models)):
                got_ids = sorted(li.listener_id for li in e2.listeners)
                exp_ids = sorted(li[0] for li in m2['listeners'])
                if got_ids != exp_ids:
                    raise Violation('events.listener_set_mismatch',
                                    f'after op {i} {op}: handler {hh} has ids {got_ids}, model {exp_ids}',
                                    dict(facts, other_handler=(hh != h)), i)
    except Violation as v:
        res['violation'] = v.info
    res.update({'log_digest': core.digest(trace), 'sig': core.h64(trace), 'decisions': [], 'jitters': [], 'steps': 0,
                'switches': 0, 'vtime': 0.0, 'probes': {}, 'faults_fired': [], 'states': sorted(states),
                'trace': trace})
    return res


def check_emit(i, kind, models, h, arg, got, calls, facts):
    """Live semantics: a listener is called iff it is connected when its turn comes.  Listeners connected at the
    start of the emit and not disconnected during it must be called, in priority order; a listener must not be
    called once it is disconnected (also if a listener called earlier in this very emit disconnected it);
    listeners connected *during* the emit may or may not be called in it (unspecified)."""
    m = models[h]
    at_start = list(m['listeners'])
    called = []
    for c in calls:
        name, args, kwargs = c[0], c[1], c[2]
        rec = c[3] if len(c) > 3 else None
        cands = [li for li in m['listeners'] if li[1] == name]  # connected right now, according to the model
        if not cands:
            facts['reentrant'] = any(len(cc) > 3 for cc in calls)
            raise Violation('events.called_disconnected_listener', f'op {i}: {name} called but not connected', facts, i)
        # several connections of the same named target are distinguished by extra kwargs / order
        match = None
        for li in cands:
            if li in called:
                continue
            exp_kwargs = sorted(dict({'kw': arg + 1}, **li[3]).items())
            if args == [arg] and kwargs == exp_kwargs:
                match = li
                break
        if match is None:
            raise Violation('events.wrong_arguments', f'op {i}: {name} called with {args} {kwargs}', facts, i)
        called.append(match)
        if rec is not None:
            facts['reentrant'] = True
            mb = models[rec[1]]
            if rec[0] == 'disc':
                mb['listeners'] = [li for li in mb['listeners'] if li[0] != rec[2]]
            else:
                mb['listeners'].append([mb['counter'], rec[2], rec[3], {}, None])
                mb['counter'] += 1
    listeners = [li for li in at_start if li in m['listeners']]  # connected throughout: these are required
    prios = [li[2] for li in called if li in at_start]
    if prios != sorted(prios, reverse=True):
        raise Violation('events.priority_order', f'op {i}: call order {[(li[1], li[2]) for li in called]}', facts, i)
    if kind == 'emit':
        missing = [li[1] for li in listeners if li not in called]
        if missing:
            raise Violation('events.listener_not_called', f'op {i}: connected but not called: {missing}', facts, i)
        exp_res = [li[4] for li in called]
        if list(got) != exp_res:
            raise Violation('events.emit_results', f'op {i}: results {got}, expected {exp_res}', facts, i)
    else:
        # emit_until_result: stops at the first non-None; all strictly-higher priorities were called
        nonnone = [li for li in called if li[4] is not None]
        if nonnone:
            if called[-1] is not nonnone[0] or len(nonnone) != 1:
                raise Violation('events.emit_until_did_not_stop', f'op {i}: calls {[li[1] for li in called]}', facts,
                                i)
            if got != nonnone[0][4]:
                raise Violation('events.emit_until_result', f'op {i}: returned {got!r}', facts, i)
            last_prio = called[-1][2]
            skipped = [li[1] for li in listeners if li[2] > last_prio and li not in called]
            if skipped:
                raise Violation('events.listener_not_called', f'op {i}: higher priority skipped: {skipped}', facts, i)
        else:
            missing = [li[1] for li in listeners if li not in called]
            if missing or got is not None:
                raise Violation('events.emit_until_result' if not missing else 'events.listener_not_called',
                                f'op {i}: returned {got!r} after {len(called)} calls; connected but not called: '
                                f'{missing}', facts, i)
