"""C18, algorithm-level resume: `Algorithm.get_resume_data()` -> file -> `Engine(..., resume_data=...)` -> `resume_run()`.

The Simulation classes cannot reach every resume path of the engines: DMRG with `orthogonal_to` (excited
states) on finite and on *segment* boundary conditions is only resumable through the algorithm-level API, because
`OrthogonalExcitations.resume_run_algorithm` is a NotImplementedError.  Here the simulated process is a small user
script (a stub: it is ours, not tenpy's) around the real engine: at every algorithm checkpoint it writes psi, the
options and `engine.get_resume_data()` to a new file `ckpt_<sweeps><ext>` with tenpy's `hdf5_io.save`; a restarted
process loads the newest checkpoint that loads, re-creates the engine from the resume data and calls
`resume_run()`.  File system, clock, faults and the registration of save attempts are those of the C18 world; what
is decided is the second half of the property (a run resumed from any checkpoint, also after a second crash,
ends like the uninterrupted run) plus "a checkpoint whose save returned loads".
"""

import copy
import random

import numpy as np

from sim import core, simfs

FAMILIES = ('eng_seg', 'eng_fin')
TOL_E = 1.0e-8       # observed on the unchanged tree: <= 2e-12
TOL_OBS = 1.0e-6     # observed: <= 1e-10
TOL_OV = 1.0e-6


def gen_cfg(seed, fam, tier='quick'):
    wl = random.Random(core.sub_seed(seed, 'engine-config'))
    cfg = {
        'family': fam, 'seed': seed, 'level': 'algorithm',
        'ext': wl.choice(['.pkl', '.pkl', '.pklz', '.h5']),
        'clock': wl.choice(['steady', 'steady', 'slow', 'jumpy']),
        'engine': wl.choice(['TwoSiteDMRGEngine', 'TwoSiteDMRGEngine', 'SingleSiteDMRGEngine']),
        'n_sweeps': wl.choice([4, 5, 6, 8]),
        'chi': wl.choice([8, 12]),
        'diag_method': wl.choice(['default', 'lanczos']),
        'combine': wl.random() < 0.3,
        'conserve': wl.choice([None, 'parity']),
        'enlarge': wl.choice([3, 5]),          # eng_seg: unit cells of the infinite ground state in the segment
        'L': wl.choice([6, 8]),                # eng_fin
        'n_ortho': wl.choice([1, 1, 2]),       # eng_fin: orthogonal to the ground state (and the first excited state)
        # keys the rest of the C18 machinery looks at
        'preexisting_output': False, 'save_every': 0.0, 'extra_measurements': False, 'neighbour': False,
        'out_stem': 'ckpt', 'mixer': None, 'fixed_sweeps': True,
    }
    if cfg['engine'] == 'SingleSiteDMRGEngine':
        cfg['combine'] = False
    return cfg


# ---------------------------------------------------------------------------------------------
# the user's input: model, states to stay orthogonal to, initial guess.  Deterministic functions of the
# configuration, computed once per worker process and handed out as deep copies (a real script would load them).

_SETUP = {}


def _dmrg_params(cfg, n_sweeps=None, chi=None):
    n = n_sweeps or cfg['n_sweeps']
    p = {'mixer': False, 'N_sweeps_check': 1, 'min_sweeps': n, 'max_sweeps': n, 'max_E_err': 1.0e-30,
         'max_S_err': 1.0e-30, 'max_trunc_err': None, 'lanczos_params': {'N_min': 2, 'N_max': 20},
         'trunc_params': {'chi_max': chi or cfg['chi'], 'svd_min': 1.0e-10}}
    if cfg['diag_method'] != 'default':
        p['diag_method'] = cfg['diag_method']
    if cfg['combine']:
        p['combine'] = True
    return p


def setup(cfg):
    key = (cfg['family'], cfg['conserve'], cfg['enlarge'], cfg['L'], cfg['n_ortho'])
    if key not in _SETUP:
        # the input is a function of the configuration alone: its hidden randomness (numpy's global generator,
        # ARPACK start vectors) gets fixed seeds of its own, whatever simulated process asks for it first
        import tenpy.tools.math as math_mod
        from checks.c18_world import _ArpackSeam
        saved_state, saved_scipy = np.random.get_state(), math_mod.scipy
        np.random.seed(12345)
        math_mod.scipy = _ArpackSeam(12345)
        try:
            _compute_setup(cfg, key)
        finally:
            np.random.set_state(saved_state)
            math_mod.scipy = saved_scipy
    s = _SETUP[key]
    return {'model': s['model'], 'ortho': [o.copy() for o in s['ortho']], 'guess': s['guess'].copy(),
            'init_env_data': copy.deepcopy(s['init_env_data'])}


def _compute_setup(cfg, key):
    if True:
        from tenpy.algorithms import dmrg
        from tenpy.models.tf_ising import TFIChain
        from tenpy.networks import mps
        if cfg['family'] == 'eng_seg':
            model = TFIChain({'J': 1.0, 'g': 1.5, 'L': 2, 'bc_MPS': 'infinite', 'conserve': cfg['conserve']})
            psi0 = mps.MPS.from_lat_product_state(model.lat, [['up']])
            eng0 = dmrg.TwoSiteDMRGEngine(psi0, model, {'mixer': True, 'max_E_err': 1.0e-10, 'max_sweeps': 30,
                                                        'trunc_params': {'chi_max': 16, 'svd_min': 1.0e-10}})
            eng0.run()
            model_seg = model.extract_segment(enlarge=cfg['enlarge'])
            first, last = model_seg.lat.segment_first_last
            psi_seg = psi0.extract_segment(first, last)
            init_env_data = eng0.env.get_initialization_data(first, last)
            guess = psi_seg.copy()
            mid = psi_seg.L // 2
            guess.apply_local_op(mid - 1, 'Sigmaz', unitary=True)
            guess.apply_local_op(mid, 'Sigmaz', unitary=True)
            _SETUP[key] = {'model': model_seg, 'ortho': [psi_seg], 'guess': guess, 'init_env_data': init_env_data}
        else:
            model = TFIChain({'J': 1.0, 'g': 1.5, 'L': cfg['L'], 'bc_MPS': 'finite', 'conserve': cfg['conserve']})
            ortho = []
            for _ in range(cfg['n_ortho']):
                psi = mps.MPS.from_lat_product_state(model.lat, [['up']])
                if ortho:
                    psi.apply_local_op(1, 'Sigmaz', unitary=True)
                eng = dmrg.TwoSiteDMRGEngine(psi, model, {'mixer': True, 'max_sweeps': 12, 'max_E_err': 1.0e-12,
                                                          'trunc_params': {'chi_max': 32, 'svd_min': 1.0e-12}},
                                             orthogonal_to=[o.copy() for o in ortho])
                eng.run()
                ortho.append(psi)
            guess = ortho[0].copy()
            guess.apply_local_op(cfg['L'] // 2, 'Sigmaz', unitary=True)
            guess.apply_local_op(cfg['L'] // 2 - 2, 'Sigmaz', unitary=True)
            _SETUP[key] = {'model': model, 'ortho': ortho, 'guess': guess, 'init_env_data': None}


# ---------------------------------------------------------------------------------------------
# the script (runs inside World.run_segment, i.e. under the file-system / clock seams)

def _listener(cfg, perturb=None):
    import tenpy.tools.hdf5_io as h5mod
    done = []

    def save_checkpoint(engine):
        data = {'script_checkpoint': int(engine.sweeps), 'psi': engine.psi, 'options': engine.options.as_dict(),
                'resume_data': engine.get_resume_data()}
        h5mod.save(data, f'ckpt_{int(engine.sweeps):03d}{cfg["ext"]}')
        if perturb and not done:
            # conditioning probe (see reference()): relative noise of size `perturb` on every tensor of psi
            done.append(1)
            psi = engine.psi
            for i in range(psi.L):
                B = psi.get_B(i, form=None)
                B = B.unary_blockwise(lambda blk: blk * (1.0 + perturb * np.cos(np.arange(blk.size) + i)
                                                         .reshape(blk.shape)))
                psi.set_B(i, B, form=psi.form[i])
    return save_checkpoint


def _result(engine, E, psi):
    return {'energy': float(np.real(E)), 'sweeps': int(engine.sweeps), 'psi': psi,
            'obs': np.asarray(psi.expectation_value('Sigmaz'), dtype=float),
            'S': np.asarray(psi.entanglement_entropy(), dtype=float)}


def script_fresh(world, cfg, perturb=None):
    from tenpy.algorithms import dmrg
    s = setup(cfg)
    kw = {'orthogonal_to': s['ortho']}
    if s['init_env_data'] is not None:
        kw['resume_data'] = {'init_env_data': s['init_env_data']}
    eng = getattr(dmrg, cfg['engine'])(s['guess'], s['model'], _dmrg_params(cfg), **kw)
    eng.checkpoint.connect(_listener(cfg, perturb))
    E, psi = eng.run()
    return _result(eng, E, psi)


def script_resume(world, cfg, filename):
    import tenpy.tools.hdf5_io as h5mod
    from tenpy.algorithms import dmrg
    s = setup(cfg)
    data = h5mod.load(filename)
    eng = getattr(dmrg, cfg['engine'])(data['psi'], s['model'], data['options'], resume_data=data['resume_data'])
    eng.checkpoint.connect(_listener(cfg))
    E, psi = eng.resume_run()
    return _result(eng, E, psi)


# ---------------------------------------------------------------------------------------------
# driver

def _newest_loadable(world, cfg):
    names = sorted((p for p in world.fs.files if p.startswith('ckpt_') and p.endswith(cfg['ext'])), reverse=True)
    for p in names:
        try:
            data = world.load_bytes(p, bytes(world.fs.files[p]))
        except Exception:  # noqa: BLE001
            continue
        if isinstance(data, dict) and 'script_checkpoint' in data:
            return p, int(data['script_checkpoint'])
    return None


PROBE_EPS = 1.0e-13   # ~100x the noise a resume introduces (re-created environments: 1e-15 relative)
COND_E = 1.0e-9       # response of the final energy to the probe above which a configuration is skipped
MARGIN_E = 1.0e5      # tolerance = max(floor, MARGIN x response to the probe): at most 1e-4 in the energy
MARGIN_OBS = 1.0e4    # observables are compared only where this gives a tolerance <= 1e-2
# (calibration on the unchanged tree, 185 histories of segment DMRG: largest deviation 0.4 % of the tolerance so
# defined; with MARGIN 1e3 it had been 39 % - carried-over and re-created environments of a segment differ by more
# than rounding noise, so the probe underestimates what a resume does)


def reference(cfg, W):
    """Uninterrupted run, plus a conditioning probe: the same run with relative noise of 1e-13 put on psi after
    the first checkpoint.  An excited-state search in a dense band that is not converged after the few sweeps done
    here amplifies rounding noise (observed: 1e-15 -> 4e-4 in the energy for single-site DMRG on a segment without
    charge conservation); re-created environments differ from carried-over ones at that level, so for such a
    configuration "equal to the uninterrupted run" is not decidable and its histories are skipped (counted)."""
    world = W.World(cfg)
    world.fs.record = False
    out = world.run_segment(('engine_fresh', cfg), clock_seed=core.sub_seed(cfg['seed'], 'clock0'))
    if out['outcome'] == 'finished' and not world.violations:
        w2 = W.World(cfg)
        w2.fs.record = False
        o2 = w2.run_segment(('engine_fresh', cfg, PROBE_EPS), clock_seed=core.sub_seed(cfg['seed'], 'clock0'))
        if o2['outcome'] == 'finished':
            a, b = out['results'], o2['results']
            out['sensitivity'] = {'dE': abs(a['energy'] - b['energy']),
                                  'dObs': float(max(np.max(np.abs(a['obs'] - b['obs'])), np.max(np.abs(a['S'] - b['S']))))}
            out['well_conditioned'] = out['sensitivity']['dE'] <= COND_E
            out['results']['tol_E'] = max(TOL_E, MARGIN_E * out['sensitivity']['dE'])
            out['results']['tol_obs'] = max(TOL_OBS, MARGIN_OBS * out['sensitivity']['dObs'])
            if cfg['family'] == 'eng_seg':
                # Segment searches: the response to the probe has a heavy tail (soak seed 2010: entropies 2.5 x the
                # tolerance so defined, on the unchanged tree).  Only the energy is compared there, with a wider
                # margin (at most 1e-3; the defect this workload was built for moves the energy by 7e-2);
                # observables are compared for the finite chain, which resumes bit-exactly.
                out['results']['tol_E'] = max(1.0e-6, 10 * MARGIN_E * out['sensitivity']['dE'])
                out['results']['tol_obs'] = float('inf')
        else:
            out['well_conditioned'] = False
    return world, out


def run_digests(world, out):
    """Digest of an uninterrupted run for the cross-interpreter determinism self-test (content of every checkpoint
    and the final numbers, bit for bit)."""
    r = out['results']
    d = core.digest([[sv['path'], sv['content']] for sv in world.saves] +
                    [repr(r['energy']), r['sweeps'], r['obs'].tobytes().hex(), r['S'].tobytes().hex()])
    return d, d


def gen_history(cfg, ref_ops, n_saves, rng):
    n = rng.choice([1, 1, 2, 2, 3])
    per = max(2, ref_ops // max(1, n_saves))
    faults = []
    remaining = ref_ops
    for s in range(n):
        lo = per if s == 0 else 0  # after the first checkpoint, so that there is something to resume from
        at = rng.randrange(lo, max(lo + 1, remaining))
        faults.append({'kind': 'kill', 'at_op': at, 'tear': rng.choice([None, rng.random()])})
        remaining = max(per + 1, remaining - at + per)
    return {'cfg': cfg, 'faults': faults, 'clock_seed': rng.getrandbits(32)}


def run_history(plan, ref, stats, W):
    cfg = plan['cfg']
    world = W.World(cfg)
    world.fs.record = False
    start = ('engine_fresh', cfg)
    trace = []
    faults = list(plan['faults'])
    seg = 0
    final = None
    while True:
        fault = faults[seg] if seg < len(faults) else None
        cs = core.sub_seed(cfg['seed'], 'clock0') if seg == 0 else core.sub_seed(plan['clock_seed'], f'seg{seg}')
        o = world.run_segment(start, fault, clock_seed=cs)
        fired = None
        if fault is not None and world.fs.crash_fired:
            fired = 'kill'
            world.fs.crash_fired = None
            stats['faults_fired'][fired] += 1
        trace.append([seg, start[0], fault, fired, o['outcome'],
                      o['error'] if isinstance(o['error'], (str, type(None))) else o['error']['type']])
        facts = {'family': cfg['family'], 'ext': cfg['ext'], 'segment': seg, 'start': start[0], 'level': 'algorithm',
                 'engine': cfg['engine'], 'outcome': o['outcome']}
        if world.violations:
            v = world.violations[0]
            return {'invariant': v['invariant'], 'detail': v['detail'], 'facts': facts, 'trace': trace}
        if o['outcome'] == 'finished':
            final = o['results']
            break
        if o['outcome'] == 'exception':
            err = o['error']
            facts.update({'exc_type': err['type'], 'exc_function': err['function'], 'exc_file': err['file']})
            return {'invariant': 'resume.raised' if seg else 'run.raised',
                    'detail': f"{err['type']} in {err['function']} ({err['file']}): {err['msg']}", 'facts': facts,
                    'trace': trace}
        # killed: the newest checkpoint that loads must be the last acknowledged one or a newer one
        acked = [sv for sv in world.saves if sv['completed']]
        rec = _newest_loadable(world, cfg)
        stats['crash_state_classes'][('algorithm-level', 'has_checkpoint' if rec else 'none')] += 1
        if acked and rec is None:
            return {'invariant': 'disk.no_complete_file', 'detail': f'{len(acked)} checkpoint saves had returned, '
                    f'none of the files {sorted(world.fs.files)} loads', 'facts': facts, 'trace': trace}
        if rec is None:
            stats['probes']['nothing_to_resume_from_yet'] += 1
            return None
        start = ('engine_resume', cfg, rec[0])
        stats['segments_resumed'] += 1
        stats['probes']['resumed_via_algorithm_level_api'] += 1
        seg += 1
        if seg > len(faults) + 1:
            break
    if final is None:
        return None
    stats['histories_compared'] += 1
    return compare(ref, final, cfg, trace, stats)


def compare(ref, res, cfg, trace, stats):
    facts = {'family': cfg['family'], 'ext': cfg['ext'], 'level': 'algorithm', 'engine': cfg['engine'],
             'n_resumes': sum(1 for t in trace if t[1] == 'engine_resume')}
    if res['sweeps'] != ref['sweeps']:
        return {'invariant': 'resume.sweeps_differ', 'detail': f"uninterrupted run: {ref['sweeps']} sweeps, resumed "
                f"run: {res['sweeps']}", 'facts': facts, 'trace': trace}
    tol_E, tol_obs = ref.get('tol_E', TOL_E), ref.get('tol_obs', TOL_OBS)
    dE = abs(res['energy'] - ref['energy'])
    dO = float(np.max(np.abs(res['obs'] - ref['obs']))) if res['obs'].shape == ref['obs'].shape else float('inf')
    dS = float(np.max(np.abs(res['S'] - ref['S']))) if res['S'].shape == ref['S'].shape else float('inf')
    md = stats['max_dev']
    for k, v in (('alg_energy', dE), ('alg_obs', dO), ('alg_entropy', dS), ('alg_energy_over_tolerance', dE / tol_E),
                 ('alg_obs_over_tolerance', max(dO, dS) / tol_obs)):
        if np.isfinite(v):
            md[k] = max(md.get(k, 0.0), v)
    if not dE <= tol_E:
        return {'invariant': 'resume.energy_differs', 'detail': f'|dE| = {dE:.3e} (tolerance {tol_E:.1e})',
                'facts': facts, 'trace': trace}
    if tol_obs <= 1.0e-2 and not (dO <= tol_obs and dS <= tol_obs):
        return {'invariant': 'resume.measurement_differs', 'detail': f'max |d<Sigmaz>| = {dO:.3e}, max |dS| = '
                f'{dS:.3e} (tolerance {tol_obs:.1e})', 'facts': dict(facts, key='Sigmaz/entropy'), 'trace': trace}
    if cfg['family'] == 'eng_fin' and tol_E <= TOL_E:
        ov = abs(ref['psi'].overlap(res['psi'])) / np.sqrt(abs(ref['psi'].overlap(ref['psi']))
                                                         * abs(res['psi'].overlap(res['psi'])))
        md['alg_overlap'] = max(md.get('alg_overlap', 0.0), abs(1.0 - ov))
        if not abs(1.0 - ov) <= TOL_OV:
            return {'invariant': 'resume.state_differs', 'detail': f'|<ref|resumed>| = {ov:.9f}', 'facts': facts,
                    'trace': trace}
    return None


def run_config(cfg, ctx, stats, W, rng):
    """Reference run + K histories.  Returns list of violations (with plans)."""
    violations = []
    world, out = reference(cfg, W)
    if out['outcome'] != 'finished':
        err = out['error']
        stats['ref_failed'].append({'idx': None, 'family': cfg['family'],
                                    'error': (err['type'] + ' in ' + err['function']) if isinstance(err, dict)
                                    else str(err), 'clock': cfg['clock'], 'max_hours': None})
        return violations
    if world.violations:
        v = world.violations[0]
        violations.append({'invariant': v['invariant'], 'detail': v['detail'],
                           'facts': {'family': cfg['family'], 'ext': cfg['ext'], 'level': 'algorithm'},
                           'plan': {'cfg': cfg, 'faults': [], 'clock_seed': 0}})
        return violations
    ref = out['results']
    stats['digests'].append([ctx.get('_idx')] + list(run_digests(world, out)))
    if not out.get('well_conditioned'):
        stats['probes']['algorithm_level_config_ill_conditioned_skipped'] += 1
        return violations
    n_saves = sum(1 for sv in world.saves if sv['completed'])
    stats['fs_ops'] += out['ops_in_segment']
    stats['sim_seconds'] += world.clock.now - 1.0e9
    stats['probes']['algorithm_level_reference_runs'] += 1
    for h in range(ctx['histories']):
        plan = gen_history(cfg, out['ops_in_segment'], n_saves, rng)
        stats['histories'] += 1
        v = run_history(plan, ref, stats, W)
        if v is not None:
            v['plan'] = plan
            violations.append(v)
    return violations


def replay_plan(plan, stats, W):
    cfg = plan['cfg']
    world, out = reference(cfg, W)
    if out['outcome'] != 'finished':
        err = out['error']
        return {'invariant': 'run.raised', 'detail': f'fault-free run failed: {err}',
                'facts': {'family': cfg['family'], 'fault_free': True, 'level': 'algorithm'}}
    if not out.get('well_conditioned'):
        return None
    return run_history(plan, out['results'], stats, W)
