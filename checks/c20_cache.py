"""C20, workload 1: DictCache / CacheFile / Storage classes / ThreadedStorage + Worker under a
simulated scheduler, checked operation by operation against a dict model.

Everything under test is real tenpy code.  Simulated: queue.Queue, threading.Event, thread
start/join/liveness and all time-outs (sim.sched).  Fault seams: module attributes of
tenpy.tools.cache (open, pickle, np, pathlib, save_to_hdf5, load_from_hdf5).
"""

import builtins
import errno
import os
import pathlib
import pickle as real_pickle
import random
import shutil
import shutil as real_shutil
import types

import numpy as real_np

from sim import core
from sim.sched import Sched, SimDeadlock, SimHang, DONE

STORAGES = ['Storage', 'PickleStorage', 'Hdf5Storage', '_NumpyStorage', '_NpcArrayStorage']
KEYS = ['a', 'b', 'c', 'd']
OP_KINDS = ['set', 'get', 'getd', 'del', 'in', 'len', 'iter', 'pop', 'setdefault', 'update', 'clear', 'items',
            'preload', 'stk', 'sub', 'bool', 'sleep', 'popitem', 'values', 'keys', 'mutset', 'mutget']
TRACE_FILES = ('tenpy/tools/cache.py', 'tenpy/tools/thread.py')


# ---------------------------------------------------------------------------------------------
# values: every written value is unique (uid) so each read is attributable to one write

def value_kind_for(storage, wl):
    if storage == '_NumpyStorage':
        return 'ndarray'
    if storage == '_NpcArrayStorage':
        return 'npc'
    # 'opt': None is a value like any other (uid 0 stands for it: the one value that is not unique per write)
    return wl.choice(['int', 'tuple', 'ndarray_pickled', 'dict', 'opt'])


_CHINFO = []


def _chinfo():
    if not _CHINFO:
        from tenpy.linalg import np_conserved as npc
        _CHINFO.append(npc.ChargeInfo([1], ['N']))
    return _CHINFO[0]


def canon_uid(kind, uid):
    """'opt' values: every third write stores None, which is represented by uid 0 in model and history."""
    return 0 if (kind == 'opt' and uid % 3 == 0) else uid


def mkval(kind, uid):
    if kind == 'int':
        return uid
    if kind == 'opt':
        return None if uid == 0 else uid
    if kind == 'tuple':
        return (uid, 'x' * (uid % 7), float(uid) / 4)
    if kind == 'dict':
        return {'uid': uid, 'pad': [uid, uid + 1]}
    if kind in ('ndarray', 'ndarray_pickled'):
        return real_np.arange(uid, uid + 1 + uid % 5, dtype=float)
    if kind == 'npc':
        # block-sparse tensors whose block structure (number of blocks, leg dimensions) varies with uid:
        # _NpcArrayStorage keeps the charge metadata in RAM and only the blocks on disk
        from tenpy.linalg import np_conserved as npc
        chinfo = _chinfo()
        # same shape with different sector sizes (3x3: charges 0,0,1 vs 0,1,1), a different shape (2x2),
        # real vs complex entries, different labels: everything that lives in the RAM-side metadata
        qflat = [[[0], [1]], [[0], [0], [1]], [[0], [1], [1]]][uid % 3]
        leg = npc.LegCharge.from_qflat(chinfo, qflat)
        n = len(qflat)
        a = real_np.zeros((n, n), dtype=complex if uid % 4 == 0 else float)
        a[0, 0] = float(uid)
        a[n - 1, n - 1] = float(uid % 5)  # 0: this block is absent
        if uid % 4 == 0:
            a[n - 1, n - 1] += 0.5j
        labels = ['p', 'p*'] if uid % 7 else ['a', 'b']
        return npc.Array.from_ndarray(a, [leg, leg.conj()], labels=labels)
    raise ValueError(kind)


_MUTATED = {}  # id(object) -> (object, uid): values the harness modified in place after reading them (per run)
_DAMAGED_UIDS = set()  # uids of those values


def damage_in_place(kind, v):
    """Modify a value returned by the cache in place (the caller keeps working with it); True if done.  The uid
    stays recognisable."""
    if kind == 'npc' and v.shape[0] >= 2:
        v.iproject([True] * (v.shape[0] - 1) + [False], 0)  # discard the last index of the first leg
        return True
    if kind == 'dict':
        v['pad'] = 'modified in place'
        return True
    if kind in ('ndarray', 'ndarray_pickled') and v.flags.writeable and v.shape[0] >= 2:
        v[-1] = -7.0
        return True
    return False


def _same_value(kind, v, ref):
    if kind in ('int', 'tuple', 'dict', 'opt'):
        return (type(v) is type(ref)) and v == ref
    if kind in ('ndarray', 'ndarray_pickled'):
        return isinstance(v, real_np.ndarray) and v.shape == ref.shape and bool((v == ref).all())
    ok = (v.get_leg_labels() == ref.get_leg_labels() and v.dtype == ref.dtype and v.shape == ref.shape
          and bool((v.to_ndarray() == ref.to_ndarray()).all())
          and all(l1.test_equal(l2) is None for l1, l2 in zip(v.legs, ref.legs)))
    v.test_sanity()
    return ok


def val_uid(kind, v):
    """Extract the uid of a returned value, checking integrity; returns ('bad', repr) if not a written value.
    A value that the harness modified in place after reading it (mutget) stands for what was written: as the very
    object, or with equal content (a deferred write of the threaded storage saves the object as it is then)."""
    if id(v) in _MUTATED and _MUTATED[id(v)][0] is v:
        return _MUTATED[id(v)][1]
    try:
        if kind == 'int':
            uid = v
        elif kind == 'opt':
            uid = 0 if v is None else v
        elif kind == 'tuple':
            uid = v[0]
        elif kind == 'dict':
            uid = v['uid']
        elif kind in ('ndarray', 'ndarray_pickled'):
            uid = int(v[0])
        elif kind == 'npc':
            uid = int(round(float(real_np.real(v.to_ndarray()[0, 0]))))
        if not isinstance(uid, int) or isinstance(uid, bool):
            return ('bad', repr(v)[:80])
        if _same_value(kind, v, mkval(kind, uid)):
            return uid
        if uid in _DAMAGED_UIDS:
            ref2 = mkval(kind, uid)
            if damage_in_place(kind, ref2) and _same_value(kind, v, ref2):
                return uid
        return ('bad', repr(v)[:80])
    except Exception as e:  # noqa: BLE001
        return ('bad', f'{type(e).__name__}: {e}'[:80])


# ---------------------------------------------------------------------------------------------
# fault seams for tenpy.tools.cache

class Injector:
    """Counts storage-level I/O calls passing the seams and fails the ones named in the plan."""

    def __init__(self, faults, sched, faults_at=()):
        self.plan = {int(k): kind for k, kind in faults}
        self.at = {(what, int(n)): kind for what, n, kind in faults_at}  # the n-th call of one kind of I/O call
        self.n = 0
        self.fired = []
        self.sched = sched
        self.calls = {}

    def tick(self, what):
        self.n += 1
        self.calls[what] = self.calls.get(what, 0) + 1
        kind = self.plan.get(self.n) or self.at.get((what, self.calls[what]))
        if kind is not None:
            self.fired.append([self.n, kind, what])
            self.sched.probe('fault_fired:io:' + kind)
            self.sched.probe('fault_fired_at:' + what)
        return kind


def _oserror(kind):
    if kind == 'enospc':
        return OSError(errno.ENOSPC, 'injected: No space left on device')
    return OSError(errno.EIO, 'injected: Input/output error')


def install_seams(inj):
    import tenpy.tools.cache as tc
    saved = {}

    def setattr_(name, val):
        saved[name] = tc.__dict__.get(name, _MISSING)
        setattr(tc, name, val)

    def f_open(file, mode='r', *a, **kw):
        kind = inj.tick('open:' + ('w' if 'w' in mode else 'r'))
        if kind in ('enospc', 'eio'):
            raise _oserror(kind)
        f = builtins.open(file, mode, *a, **kw)
        if kind == 'truncate':
            return _TruncatingFile(f, inj)
        return f

    class PickleProxy:
        def __getattr__(self, name):
            return getattr(real_pickle, name)

        @staticmethod
        def dump(value, f, *a, **kw):
            kind = inj.tick('pickle.dump')
            if kind in ('enospc', 'eio'):
                raise _oserror(kind)
            if kind == 'truncate':
                data = real_pickle.dumps(value, *a, **kw)
                f.write(data[:max(1, len(data) // 2)])
                f.flush()
                raise _oserror('enospc')
            return real_pickle.dump(value, f, *a, **kw)

        @staticmethod
        def load(f, *a, **kw):
            kind = inj.tick('pickle.load')
            if kind is not None:
                raise _oserror('eio')
            return real_pickle.load(f, *a, **kw)

    class NpProxy:
        def __getattr__(self, name):
            return getattr(real_np, name)

        @staticmethod
        def save(file, arr, *a, **kw):
            kind = inj.tick('np.save')
            if kind in ('enospc', 'eio'):
                raise _oserror(kind)
            if kind == 'truncate':
                if isinstance(file, (str, os.PathLike)):
                    real_np.save(file, arr, *a, **kw)
                    sz = os.path.getsize(file)
                    os.truncate(file, max(1, sz // 2))
                else:
                    import io
                    b = io.BytesIO()
                    real_np.save(b, arr, *a, **kw)
                    data = b.getvalue()
                    file.write(data[:max(1, len(data) // 2)])
                    file.flush()
                raise _oserror('enospc')
            return real_np.save(file, arr, *a, **kw)

        @staticmethod
        def load(file, *a, **kw):
            kind = inj.tick('np.load')
            if kind is not None:
                raise _oserror('eio')
            return real_np.load(file, *a, **kw)

    PathBase = type(pathlib.Path())

    class FPath(PathBase):
        def unlink(self, *a, **kw):
            kind = inj.tick('unlink')
            if kind is not None:
                raise _oserror('eio')
            return super().unlink(*a, **kw)

        def mkdir(self, *a, **kw):
            kind = inj.tick('mkdir')
            if kind is not None:
                raise _oserror('enospc')
            return super().mkdir(*a, **kw)

    real_save, real_load = tc.save_to_hdf5, tc.load_from_hdf5

    def f_save_to_hdf5(h5gr, obj, path='/'):
        kind = inj.tick('h5.save')
        if kind in ('enospc', 'eio'):
            raise _oserror(kind)
        r = real_save(h5gr, obj, path)
        if kind == 'truncate':  # written, but the error is reported afterwards (e.g. at flush)
            raise _oserror('enospc')
        return r

    def f_load_from_hdf5(h5gr, path=None, ignore_unknown=True, exclude=None):
        kind = inj.tick('h5.load')
        if kind is not None:
            raise _oserror('eio')
        return real_load(h5gr, path, ignore_unknown, exclude)

    class ShutilProxy:
        def __getattr__(self, name):
            return getattr(real_shutil, name)

        @staticmethod
        def rmtree(path, *a, **kw):
            kind = inj.tick('rmtree')
            if kind is not None:
                raise _oserror('eio')
            return real_shutil.rmtree(path, *a, **kw)

    class OsProxy:
        def __getattr__(self, name):
            return getattr(os, name)

        @staticmethod
        def remove(path, *a, **kw):
            kind = inj.tick('os.remove')
            if kind is not None:
                raise _oserror('eio')
            return os.remove(path, *a, **kw)

    setattr_('shutil', ShutilProxy())
    setattr_('os', OsProxy())
    setattr_('open', f_open)
    setattr_('pickle', PickleProxy())
    setattr_('np', NpProxy())
    setattr_('pathlib', types.SimpleNamespace(Path=FPath))
    setattr_('save_to_hdf5', f_save_to_hdf5)
    setattr_('load_from_hdf5', f_load_from_hdf5)
    return saved


_MISSING = object()


def remove_seams(saved):
    import tenpy.tools.cache as tc
    for name, val in saved.items():
        if val is _MISSING:
            try:
                delattr(tc, name)
            except AttributeError:
                pass
        else:
            setattr(tc, name, val)


class _TruncatingFile:
    """File wrapper: the first write stores half of its bytes, then raises ENOSPC."""

    def __init__(self, f, inj):
        self._f = f
        self._done = False

    def write(self, data):
        if not self._done:
            self._done = True
            self._f.write(bytes(data)[:max(1, len(data) // 2)])
            self._f.flush()
            raise _oserror('enospc')
        return self._f.write(data)

    def __getattr__(self, name):
        return getattr(self._f, name)

    def __enter__(self):
        return self

    def __exit__(self, *a):
        return self._f.__exit__(*a)


# ---------------------------------------------------------------------------------------------
# plan generation (swarm: each run draws which op kinds / knobs / faults exist at all)

def gen_plan(run_seed, fault_mode=None):
    wl = random.Random(core.sub_seed(run_seed, 'workload'))
    fl = random.Random(core.sub_seed(run_seed, 'faults'))
    storage = wl.choice(STORAGES)
    threaded = storage != 'Storage' and wl.random() < 0.8
    cfg = {
        'storage': storage,
        'threaded': threaded,
        'max_queue_size': wl.choice([0, 1, 1, 2, 2, 3]),  # 0 = unbounded queue
        'delete': wl.random() < 0.8,
        'explicit_path': wl.random() < 0.5,
        'enter': wl.random() < 0.7,  # use the CacheFile in a `with`-like manner (__enter__/__exit__)
        'value_kind': value_kind_for(storage, wl),
        'granularity': 'line' if (threaded and wl.random() < 0.35) else 'sync',
        'p_switch': wl.choice([0.05, 0.2, 0.5, 0.8]),
        'p_line': wl.choice([0.02, 0.1, 0.3]),
        'p_jitter': wl.choice([0.0, 0.0, 0.02, 0.1]),
    }
    nkeys = wl.randint(1, 4)
    # key names: plain, or (30 %) names with dots that share a stem - keys only have to be valid file names
    r = wl.random()
    # ... or (15 %) names that an implementation might use for files or entries of its own
    pool = KEYS if r > 0.3 else (['a', 'a.0', 'a.1', 'b.x'] if r > 0.15 else
                                 ['_tmp', 'tmp', 'a.tmp', 'a.pkl', 'a.npy', '__meta__', 'keys', 'a'])
    keys = pool[:nkeys] if pool is KEYS else wl.sample(pool, nkeys)
    enabled = {'set', 'get'}
    for k in OP_KINDS:
        if wl.random() < 0.6:
            enabled.add(k)
    weights = {k: wl.choice([1, 2, 4]) for k in sorted(enabled)}
    weights['set'] *= 2
    weights['get'] *= 2
    kinds = sorted(enabled)
    n_ops = wl.randint(4, 40)
    if wl.random() < 0.004:
        n_ops = wl.randint(150, 400)  # a long-lived cache: defects that need many operations to show
        cfg['granularity'] = 'sync'
    ops = []
    n_caches = 1
    uid = 0
    used_names = set()
    for _ in range(n_ops):
        kind = wl.choices(kinds, [weights[k] for k in kinds])[0]
        c = wl.randrange(n_caches)
        k = wl.choice(keys)
        if kind in ('set', 'setdefault', 'mutset'):
            # mutset: the object written to this key last time is modified in place and written again (same object,
            # new content) - what an algorithm does that updates a cached tensor; a plain set if there is none
            uid += 1
            ops.append([kind, c, k, uid])
        elif kind in ('get', 'getd', 'del', 'in', 'pop', 'mutget'):
            # mutget: read a value and modify the returned object in place *without* writing it back: later reads
            # may give the stored snapshot or that very object (a dict would give the object), never anything else
            ops.append([kind, c, k])
        elif kind in ('len', 'iter', 'clear', 'items', 'bool', 'popitem', 'values', 'keys'):
            ops.append([kind, c])
        elif kind == 'update':
            pairs = []
            for kk in wl.sample(keys, wl.randint(1, len(keys))):
                uid += 1
                pairs.append([kk, uid])
            ops.append(['update', c, pairs])
        elif kind == 'preload':
            ks = [wl.choice(keys) for _ in range(wl.randint(1, 3))]
            ops.append(['preload', c, ks, wl.random() < 0.2])
        elif kind == 'stk':
            ops.append(['stk', c, wl.sample(keys, wl.randint(0, len(keys)))])
        elif kind == 'sub':
            if n_caches < 4:
                # leaf names come from a tiny alphabet: the same name may re-appear under a *different* parent
                # (tenpy's engines always call their sub-cache 'env'), never twice under the same parent
                free = [nm for nm in ('env', 'E2') if (c, nm) not in used_names]
                if free:
                    name = wl.choice(free)
                    used_names.add((c, name))
                    ops.append(['sub', c, name, n_caches])
                    n_caches += 1
        elif kind == 'sleep':
            ops.append(['sleep', wl.choice([0.5, 1.0, 2.5])])
    # closing: explicit close somewhere in the tail in some runs, followed by use-after-close ops
    if wl.random() < 0.35 and ops:
        pos = wl.randint(max(0, len(ops) - 6), len(ops))
        how = wl.choice(['close', 'exit', 'exit_exc', 'exit_kbd'])
        ops.insert(pos, ['close', how])
    if fault_mode is None:
        fault_mode = 'none'
    faults = []
    faults_at = []
    kills = []
    stalls = []
    if fault_mode == 'io':
        n_io = max(1, sum(1 for o in ops if o[0] in ('set', 'get', 'del', 'pop', 'update', 'setdefault', 'items')))
        for _ in range(fl.choice([1, 1, 2])):
            faults.append([fl.randint(1, 2 * n_io + 2), fl.choice(['enospc', 'eio', 'truncate'])])
        if fl.random() < 0.3:
            # the clean-up at close fails (directory / file cannot be removed); sometimes this is the only fault
            faults_at.append([fl.choice(['rmtree', 'rmtree', 'os.remove']), 1, 'eio'])
            if fl.random() < 0.5:
                faults = []
    elif fault_mode == 'kill' and threaded:
        kills.append([1, fl.randint(2, 60), fl.choice(['MemoryError', 'RuntimeError'])])
    elif fault_mode == 'stall' and threaded:
        for _ in range(fl.choice([1, 2])):
            stalls.append([fl.randrange(max(1, len(ops))), fl.choice([0.5, 1.5, 4.0, 30.0])])
    return {
        'workload': 'cache',
        'run_seed': run_seed,
        'cfg': cfg,
        'keys': keys,
        'ops': ops,
        'fault_mode': fault_mode,
        'faults': faults,  # [k-th storage I/O call, kind]
        'faults_at': faults_at,  # [name of the I/O call, n-th call of that name, kind]
        'kills': kills,  # [tid, n-th switch point of that thread, exception class]
        'stalls': stalls,  # [before op index, virtual seconds the worker is unschedulable]
        'sched_seed': core.sub_seed(run_seed, 'schedule'),
    }


# ---------------------------------------------------------------------------------------------
# execution against the model

class _LogProxy:
    """Stand-in for the module-level `logger` of tenpy.tools.thread / tenpy.tools.cache: error reports (this is how
    a dying worker thread announces itself) are recorded; nothing is printed."""

    def __init__(self, real, sink):
        self._real = real
        self._sink = sink

    def _rec(self, level, msg, args):
        import sys
        try:
            text = str(msg) % args if args else str(msg)
        except Exception:  # noqa: BLE001
            text = str(msg)
        exc = sys.exc_info()[1]
        self._sink.append([level, text[:200], f'{type(exc).__name__}: {exc}'[:200] if exc is not None else None])

    def exception(self, msg, *args, **kw):
        self._rec('exception', msg, args)

    def error(self, msg, *args, **kw):
        self._rec('error', msg, args)

    def critical(self, msg, *args, **kw):
        self._rec('critical', msg, args)

    def __getattr__(self, name):
        return getattr(self._real, name)


class Violation(Exception):
    def __init__(self, invariant, detail, facts=None, op_index=None):
        super().__init__(invariant)
        self.info = {'invariant': invariant, 'detail': detail, 'facts': facts or {}, 'op_index': op_index}


def execute(plan, scratch_root, decisions=None, jitters=None):
    """Run one plan.  Returns a result dict (never raises for violations)."""
    import tenpy.tools.cache as tc
    import tenpy.tools.thread as tt

    cfg = plan['cfg']
    replay = decisions is not None
    rng = None if replay else random.Random(plan['sched_seed'])
    line = cfg['granularity'] == 'line'
    sched = Sched(rng, p_switch=cfg['p_switch'], p_jitter=cfg['p_jitter'], decisions=decisions, jitters=jitters,
                  trace_files=TRACE_FILES if line else (), p_line=cfg['p_line'])
    sched.op_step_limit = 20000 if line else 5000
    sched.op_time_limit = 600.0
    sched.fair_after = sched.op_step_limit // 2
    sched.kill_labels = {'q.get', 'ev.is_set'}
    for tid, n, exc_name in plan.get('kills', []):
        sched.kill_at[(tid, n)] = {'MemoryError': MemoryError, 'RuntimeError': RuntimeError}[exc_name]('injected')
    inj = Injector(plan.get('faults', []), sched, plan.get('faults_at', []))
    qmod, tmod = sched.modules()
    saved_q, saved_t = tt.queue, tt.threading
    tt.queue, tt.threading = qmod, tmod
    saved = install_seams(inj)
    error_log = []
    saved_loggers = (tt.logger, tc.logger)
    tt.logger, tc.logger = _LogProxy(tt.logger, error_log), _LogProxy(tc.logger, error_log)
    rundir = os.path.join(scratch_root, 'run')
    shutil.rmtree(rundir, ignore_errors=True)
    os.makedirs(rundir)
    res = {'violation': None, 'ops_done': 0}
    _MUTATED.clear()
    _DAMAGED_UIDS.clear()
    st = _RunState(plan, sched, inj, rundir)
    st.error_log = error_log
    try:
        try:
            st.open()
            if line:
                sched.enable_main_tracing()
            for i, op in enumerate(plan['ops']):
                st.step(i, op)
                res['ops_done'] = i + 1
            st.finish()
        except _Skip:
            res['skipped'] = True
        except Violation as v:
            res['violation'] = v.info
        except SimDeadlock as e:
            res['violation'] = {'invariant': 'cache.deadlock', 'detail': str(e), 'facts': st.facts_common(),
                                'op_index': st.cur_index}
            res['violation']['facts']['op'] = st.cur_op_kind
        except SimHang as e:
            res['violation'] = {'invariant': 'cache.hang', 'detail': str(e), 'facts': st.facts_common(),
                                'op_index': st.cur_index}
            res['violation']['facts']['op'] = st.cur_op_kind
        finally:
            sched.disable_main_tracing()
    finally:
        leaked = sched.shutdown()
        remove_seams(saved)
        tt.queue, tt.threading = saved_q, saved_t
        tt.logger, tc.logger = saved_loggers
        st.cleanup_files()
        shutil.rmtree(rundir, ignore_errors=True)
    if leaked:
        raise core.HarnessError(f'simulated threads leaked: {leaked}')
    res.update({
        'log_digest': core.digest([sched.log, st.trace]),
        'sig': core.h64(sched.log),
        'decisions': sched.decisions,
        'jitters': sched.jitters,
        'steps': sched.steps,
        'switches': sched.switches,
        'vtime': sched.now,
        'probes': dict(sched.probes),
        'faults_fired': inj.fired,
        'io_calls': inj.n,
        'states': sorted(st.states),
        'trace': st.trace,
    })
    return res


class _RunState:
    def __init__(self, plan, sched, inj, rundir):
        self.plan = plan
        self.cfg = plan['cfg']
        self.sched = sched
        self.inj = inj
        self.rundir = rundir
        self.kind = self.cfg['value_kind']
        self.caches = {}  # index -> real cache
        self.model = {}  # index -> dict
        self.hist = {}  # index -> key -> set of uids ever written
        self.last_mut = {}  # index -> key -> last mutating op kind
        self.tainted = {}  # index -> set of keys whose state is uncertain after an injected fault
        self.closed = False
        self.trace = []  # [op index, outcome summary]  (deterministic; part of the digest)
        self.states = set()
        self.cur_index = None
        self.cur_op_kind = None
        self.worker_obj = None
        self.fault_seen = False  # an injected fault (io error / kill) has fired
        self.error_log = []
        self.last_obj = {}  # (cache index, key) -> the object most recently written there by set / mutset
        self.reuse = False
        self.stalls = {int(i): float(t) for i, t in plan.get('stalls', [])}

    # ---------------------------------------------------------------- helpers
    def facts_common(self):
        return {'storage': self.cfg['storage'], 'threaded': self.cfg['threaded'],
                'fault_mode': self.plan.get('fault_mode', 'none'), 'after_close': self.closed,
                'fault_fired': bool(self.inj.fired) or self.fault_seen}

    def _note_fault(self):
        if self.inj.fired or self.sched.probes.get('fault_fired:thread_kill'):
            self.fault_seen = True

    def check_error_log(self):
        """Closing is clean, and without a fault nothing fails: an error report from the worker thread (the task
        it was running raised) in a run where no fault was injected means that cache and thread stepped on each
        other."""
        self._note_fault()
        if self.error_log and not self.fault_seen:
            lvl, text, exc = self.error_log[0]
            facts = self.facts_common()
            facts['op'] = self.cur_op_kind
            facts['error'] = (exc or text).split(':')[0]
            raise Violation('cache.error_logged_without_fault',
                            f'no fault was injected, yet tenpy reported: {text!r} ({exc})', facts, self.cur_index)

    def worker_dead(self):
        # independent of tenpy's attribute names: sim thread 1 is the first thread created, i.e. the cache worker
        ths = self.sched.threads
        return self.cfg['threaded'] and len(ths) > 1 and ths[1].state == DONE

    def call(self, fn):
        """Run tenpy code; returns ('ok', value) or ('exc', exception)."""
        try:
            return 'ok', fn()
        except Exception as e:  # noqa: BLE001  (SimDeadlock/SimHang are BaseException and propagate)
            return 'exc', e

    def abstract_state(self, opkind):
        # reads internals of tenpy for the coverage measure only; a refactoring that renames them must not
        # break the check, so every access is guarded
        w = self.worker_obj
        s = (opkind, self.closed)
        if w is not None:
            try:
                stor = self.caches[0].long_term_storage
                s = (opkind, self.closed, len(w.tasks.items), min(w.tasks.unfinished, 4), w.worker_thread._st.state,
                     w.exit._flag, len(getattr(stor, '_waiting_for_load', ())), len(getattr(stor, '_loaded', ())))
            except AttributeError:
                pass
        self.states.add(core.h64(s))

    # ---------------------------------------------------------------- open / close
    def open(self):
        import tenpy.tools.cache as tc
        cfg = self.cfg
        kw = {}
        if cfg['storage'] in ('PickleStorage', '_NumpyStorage', '_NpcArrayStorage'):
            if cfg['explicit_path']:
                kw['directory'] = os.path.join(self.rundir, 'cachedir')
            else:
                kw['tmpdir'] = self.rundir
        elif cfg['storage'] == 'Hdf5Storage':
            if cfg['explicit_path']:
                kw['filename'] = os.path.join(self.rundir, 'cache.h5')
            else:
                kw['tmpdir'] = self.rundir
        self.sched.begin_op()
        status, val = self.call(lambda: tc.CacheFile.open(storage_class=cfg['storage'], use_threading=cfg['threaded'],
                                                          delete=cfg['delete'], max_queue_size=cfg['max_queue_size'],
                                                          **kw))
        self._note_fault()
        if status == 'exc':
            if self.fault_seen:
                raise _Skip()
            raise Violation('cache.open_failed', f'{type(val).__name__}: {val}', self.facts_common())
        cache = val
        if cfg['enter']:
            cache = cache.__enter__()
        self.add_cache(0, cache)
        if cfg['threaded']:
            self.worker_obj = getattr(getattr(cache, 'long_term_storage', None), 'worker', None)

    def add_cache(self, idx, cache):
        self.caches[idx] = cache
        self.model[idx] = {}
        self.hist[idx] = {}
        self.last_mut[idx] = {}
        self.tainted[idx] = set()

    def do_close(self, how):
        c = self.caches[0]
        if how == 'close':
            status, val = self.call(c.close)
        elif how == 'exit':
            status, val = self.call(lambda: c.__exit__(None, None, None))
        elif how == 'exit_kbd':
            # the with-block is left by a KeyboardInterrupt / SystemExit (not an Exception subclass)
            e = KeyboardInterrupt('user abort inside with-block')
            status, val = self.call(lambda: c.__exit__(KeyboardInterrupt, e, None))
        else:
            e = RuntimeError('user error inside with-block')
            status, val = self.call(lambda: c.__exit__(RuntimeError, e, None))
        self._note_fault()
        facts = self.facts_common()
        facts['how'] = how
        if status == 'exc':
            if not self.fault_seen:
                raise Violation('cache.close_raised', f'{type(val).__name__}: {val}', facts, self.cur_index)
        self.closed = True
        # closing is clean: no simulated thread alive, resources gone, bool() false
        alive = self.sched.alive_threads()
        if alive:
            raise Violation('cache.close_leaves_thread', f'alive after close: {alive}', facts, self.cur_index)
        if status == 'ok' or not self.fault_seen:
            if self.cfg['delete']:
                left = sorted(os.listdir(self.rundir))
                if left:
                    raise Violation('cache.close_leaves_files', f'files left after close(delete=True): {left}', facts,
                                    self.cur_index)
            for ci, cc in sorted(self.caches.items()):
                status2, b = self.call(lambda cc=cc: bool(cc))
                if status2 == 'ok' and b:
                    f2 = dict(facts)
                    f2['cache_is_sub'] = ci > 0
                    raise Violation('cache.bool_true_after_close', f'bool(cache {ci}) is True after close', f2,
                                    self.cur_index)

    def finish(self):
        self.cur_index = len(self.plan['ops'])
        self.cur_op_kind = 'final_close'
        if not self.closed and self.caches:
            self.sched.begin_op()
            how = 'close'
            if self.cfg['enter']:
                # how the with-block ends is part of the plan's seed (no extra draw from the workload generator)
                how = ['exit', 'exit', 'exit_exc', 'exit_kbd'][self.plan['run_seed'] % 4]
            self.do_close(how)
        self.check_error_log()

    def cleanup_files(self):
        pass

    # ---------------------------------------------------------------- one operation
    def step(self, i, op):
        kind = op[0]
        self.damage = (kind == 'mutget')
        if kind == 'mutget':
            kind, op = 'get', ['get'] + list(op[1:])
        self.reuse = (kind == 'mutset')
        if kind == 'mutset':
            kind, op = 'set', ['set'] + list(op[1:])
        if self.kind == 'opt':
            if kind in ('set', 'setdefault'):
                op = op[:3] + [canon_uid('opt', op[3])]
            elif kind == 'update':
                op = ['update', op[1], [[k, canon_uid('opt', u)] for k, u in op[2]]]
        self.cur_index = i
        self.cur_op_kind = kind
        sched = self.sched
        if i in self.stalls and len(sched.threads) > 1:
            wst = sched.threads[1]
            if wst.state != DONE:
                wst.stalled_until = sched.now + self.stalls[i]
                sched.probe('fault_fired:worker_stall')
        sched.begin_op()
        sched.yield_point('op')
        self.abstract_state(kind)
        if kind == 'sleep':
            sched.sleep(op[1])
            return
        if kind == 'close':
            if self.closed:
                return
            self.do_close(op[1])
            self.trace.append([i, 'closed'])
            self.check_error_log()
            return
        c = op[1]
        if c not in self.caches:
            return  # sub-cache that could not be created (e.g. dropped by shrinking)
        if kind == 'sub' and _sub_index(op) in self.caches:
            return
        cache, model = self.caches[c], self.model[c]
        dead_before = self.worker_dead()
        fired_before = len(self.inj.fired)
        exp = self.expected(kind, op, model)
        if kind in ('set', 'setdefault'):
            self.hist[c].setdefault(op[2], set()).add(op[3])
        elif kind == 'update':
            for k, u in op[2]:
                self.hist[c].setdefault(k, set()).add(u)
        status, got = self.call(lambda: self.apply(kind, op, cache))
        self._note_fault()
        fault_in_op = len(self.inj.fired) > fired_before
        outcome = self.normalise(kind, status, got)
        self.trace.append([i, _short(outcome)])
        self.check(i, kind, op, c, exp, outcome, status, got, dead_before, fault_in_op)
        if kind == 'sub' and status == 'ok' and not self.closed:
            self.add_cache(_sub_index(op), got)
        self.update_model(kind, op, c, outcome, fault_in_op)
        self.check_error_log()

    def expected(self, kind, op, model):
        if kind == 'set':
            return ('none',)
        if kind == 'get':
            return ('val', model[op[2]]) if op[2] in model else ('exc', 'KeyError')
        if kind == 'getd':
            return ('val', model[op[2]]) if op[2] in model else ('default',)
        if kind == 'del':
            return ('none',) if op[2] in model else ('none_or', 'KeyError')
        if kind == 'in':
            return ('plain', op[2] in model)
        if kind == 'len':
            return ('plain', len(model))
        if kind == 'iter':
            return ('plain', sorted(model))
        if kind == 'pop':
            return ('val', model[op[2]]) if op[2] in model else ('exc', 'KeyError')
        if kind == 'setdefault':
            return ('val', model[op[2]]) if op[2] in model else ('val', op[3])
        if kind in ('update', 'clear', 'stk'):
            return ('none',)
        if kind == 'items':
            return ('plain', sorted([k, v] for k, v in model.items()))
        if kind == 'values':
            return ('plain', sorted(model.values()))
        if kind == 'keys':
            return ('plain', sorted(model))
        if kind == 'popitem':
            return ('popitem', sorted([k, v] for k, v in model.items())) if model else ('exc', 'KeyError')
        if kind == 'preload':
            if op[3] and any(k not in model for k in op[2]):
                return ('exc', 'KeyError')
            return ('none',)
        if kind == 'sub':
            return ('sub',)
        if kind == 'bool':
            return ('plain', not self.closed)
        raise ValueError(kind)

    def apply(self, kind, op, cache):
        vk = self.kind
        if kind == 'set':
            val = None
            old = self.last_obj.get((op[1], op[2]))
            if self.reuse and vk == 'dict' and isinstance(old, dict):
                old['uid'] = op[3]
                old['pad'] = [op[3], op[3] + 1]
                val = old
                self.sched.probe('same_object_modified_and_written_again')
            if val is None:
                val = mkval(vk, op[3])
            self.last_obj[(op[1], op[2])] = val
            _MUTATED.pop(id(val), None)  # (written again with valid content: it stands for itself again)
            cache[op[2]] = val
            return None
        if kind == 'get':
            v = cache[op[2]]
            if self.damage and not self.closed:
                uid = val_uid(vk, v)
                if isinstance(uid, int) and id(v) not in _MUTATED and damage_in_place(vk, v):
                    _MUTATED[id(v)] = (v, uid)
                    _DAMAGED_UIDS.add(uid)
                    self.sched.probe('value_modified_in_place_after_read')
                    return _Damaged(uid)
            return v
        if kind == 'getd':
            return cache.get(op[2], _DEFAULT)
        if kind == 'del':
            del cache[op[2]]
            return None
        if kind == 'in':
            return op[2] in cache
        if kind == 'len':
            return len(cache)
        if kind == 'iter':
            return sorted(iter(cache))
        if kind == 'pop':
            return cache.pop(op[2])
        if kind == 'setdefault':
            return cache.setdefault(op[2], mkval(vk, op[3]))
        if kind == 'update':
            cache.update({k: mkval(vk, u) for k, u in op[2]})
            return None
        if kind == 'clear':
            cache.clear()
            return None
        if kind == 'items':
            return sorted(([k, val_uid(vk, v)] for k, v in cache.items()), key=lambda kv: kv[0])
        if kind == 'values':
            return sorted(val_uid(vk, v) for v in cache.values())
        if kind == 'keys':
            return sorted(cache.keys())
        if kind == 'popitem':
            k, v = cache.popitem()
            return [k, val_uid(vk, v)]
        if kind == 'preload':
            cache.preload(*op[2], raise_missing=op[3])
            return None
        if kind == 'stk':
            cache.set_short_term_keys(*op[2])
            return None
        if kind == 'sub':
            return cache.create_subcache(op[2])
        if kind == 'bool':
            return bool(cache)
        raise ValueError(kind)

    def normalise(self, kind, status, got):
        if status == 'exc':
            return ('exc', type(got).__name__)
        if isinstance(got, _Damaged):
            return ('val', got.uid)  # the value as it was read, before the harness modified the object
        if kind in ('get', 'pop', 'setdefault'):
            return ('val', val_uid(self.kind, got))
        if kind == 'getd':
            return ('default',) if got is _DEFAULT else ('val', val_uid(self.kind, got))
        if kind in ('in', 'len', 'iter', 'bool', 'items', 'values', 'keys'):
            return ('plain', got)
        if kind == 'popitem':
            return ('popitem', got)
        if kind == 'sub':
            return ('sub',)
        return ('none',) if got is None else ('plain', repr(got)[:60])

    # ---------------------------------------------------------------- the oracle
    def check(self, i, kind, op, c, exp, out, status, got, dead_before, fault_in_op):
        facts = self.facts_common()
        facts.update({'op': kind, 'expected': exp[0] if exp[0] != 'exc' else exp[1],
                      'got': out[0] if out[0] != 'exc' else out[1], 'cache_is_sub': c > 0})
        key = op[2] if kind in ('get', 'getd', 'del', 'in', 'pop', 'set', 'setdefault') else None
        cache = self.caches[c]
        if key is not None:
            facts['key_in_short_term_keys'] = key in getattr(cache, 'short_term_keys', ())
            facts['last_mutation_of_key'] = self.last_mut[c].get(key)
        ok = self.matches(exp, out)
        if self.closed:
            # use after close: must not hang (checked by the scheduler); mutation must raise;
            # reads either raise or are right (or, after a fault, return something once written there)
            if kind in ('set', 'sub', 'update', 'setdefault') and status == 'ok':
                if kind == 'setdefault' and (exp == out or (out[0] == 'val' and out[1] != op[3]
                                                            and out[1] in self.hist[c].get(key, ()))):
                    # setdefault acted as a read (it returned a value written earlier, not its own default):
                    # same rule as for the other reads after close (found by the thorough tier: a sub-cache's
                    # preload buffer is not cleared when the root is closed; use after close is a misuse whose
                    # result the documentation does not specify beyond "do not use it anymore")
                    return
                raise Violation('cache.mutation_after_close_succeeded', f'{op} returned normally after close', facts,
                                i)
            if kind == 'bool' and not ok and status == 'ok':
                raise Violation('cache.bool_true_after_close', 'bool(cache) is True after close', facts, i)
            if status == 'ok' and kind in ('get', 'getd', 'pop') and out[0] == 'val':
                if out[1] not in self.hist[c].get(key, ()):
                    raise Violation('cache.read_after_close_wrong_value', f'{op}: got {out}', facts, i)
            return
        if not self.fault_seen:
            if not ok:
                if out[0] == 'val' and isinstance(out[1], int):
                    facts['got_value_was_written_to_key'] = out[1] in self.hist[c].get(key, ())
                    facts['got_value_written_to_other_cache_or_key'] = any(
                        out[1] in s for ci, h in self.hist.items() for kk, s in h.items() if (ci, kk) != (c, key))
                raise Violation('cache.return_mismatch', f'op {i} {op}: model says {exp}, cache gave {out}', facts, i)
            return
        # ---- a fault has fired: deliberate, narrow relaxation
        threaded = self.cfg['threaded']
        if dead_before and status == 'ok' and (kind == 'set' or (kind == 'update' and op[2])):
            raise Violation('cache.dead_worker_not_surfaced',
                            f'op {i} {op} returned normally although the worker thread had terminated', facts, i)
        if kind == 'items' and out[0] == 'plain':
            for k, uid in out[1]:
                if not (isinstance(uid, int) and uid in self.hist[c].get(k, ())):
                    raise Violation('cache.after_fault_wrong_value', f'op {i} items(): {k!r} -> {uid!r}', facts, i)
        if ok:
            return
        if status == 'exc':
            # an operation may fail after a fault.  A dead worker must surface as an error: fine.
            return
        # returned normally but differs from the model
        if kind in ('get', 'getd', 'pop', 'setdefault') and out[0] == 'val':
            uid = out[1]
            if isinstance(uid, int) and uid in self.hist[c].get(key, ()):
                if threaded or key in self.tainted[c]:
                    return  # old or new value of a key whose write failed / was in flight
            raise Violation('cache.after_fault_wrong_value',
                            f'op {i} {op}: got {out}, never written to this key here (model {exp})', facts, i)
        if kind == 'getd' and out == ('default',):
            if threaded or key in self.tainted[c]:
                return
        if kind in ('in', 'len', 'iter', 'items', 'bool', 'values', 'keys'):
            if threaded or self.tainted[c]:
                return
        if kind == 'popitem' and out[0] == 'popitem':
            k, uid = out[1]
            if isinstance(uid, int) and uid in self.hist[c].get(k, ()) and (threaded or self.tainted[c]):
                return
        if kind in ('set', 'update', 'del', 'clear', 'preload', 'stk', 'sub'):
            return
        raise Violation('cache.after_fault_mismatch', f'op {i} {op}: model says {exp}, cache gave {out}', facts, i)

    @staticmethod
    def matches(exp, out):
        if exp[0] == 'popitem':
            return out[0] == 'popitem' and list(out[1]) in [list(x) for x in exp[1]]
        if exp[0] == 'none_or':
            return out == ('none',) or out == ('exc', exp[1])
        return tuple(exp) == tuple(out)

    def update_model(self, kind, op, c, out, fault_in_op):
        model, hist, lm = self.model[c], self.hist[c], self.last_mut[c]
        failed = out[0] == 'exc'
        if self.closed:
            return
        # after an injected failure inside this op, the keys it touches are uncertain until re-written
        if kind == 'set':
            hist.setdefault(op[2], set()).add(op[3])
            if failed:
                self.tainted[c].add(op[2])
            else:
                model[op[2]] = op[3]
                lm[op[2]] = 'set'
                if not fault_in_op:
                    self.tainted[c].discard(op[2])
        elif kind == 'setdefault':
            hist.setdefault(op[2], set()).add(op[3])
            if failed:
                self.tainted[c].add(op[2])
            elif op[2] not in model:
                model[op[2]] = op[3]
                lm[op[2]] = 'setdefault'
        elif kind == 'update':
            for k, u in op[2]:
                hist.setdefault(k, set()).add(u)
                if failed:
                    self.tainted[c].add(k)
                else:
                    model[k] = u
                    lm[k] = 'update'
        elif kind in ('del', 'pop'):
            if failed and out[1] != 'KeyError':
                self.tainted[c].add(op[2])
            if op[2] in model and not failed:
                del model[op[2]]
                lm[op[2]] = kind
        elif kind == 'popitem':
            if failed:
                if out[1] != 'KeyError':
                    self.tainted[c].update(model)
            elif out[0] == 'popitem':
                k = out[1][0]
                model.pop(k, None)
                lm[k] = 'popitem'
        elif kind == 'clear':
            if failed or self.tainted[c]:
                # MutableMapping.clear() swallows a KeyError raised while popping a key whose earlier
                # write failed: after a fault, clear() may legitimately be partial
                self.tainted[c].update(model)
            if not failed:
                for k in list(model):
                    lm[k] = 'clear'
                model.clear()
        elif kind == 'sub' and not failed:
            # the real sub-cache was returned by apply(); fetch it again is impossible, so apply() result
            # is stored by step() through `got`: handled below
            pass
        if kind in ('get', 'getd', 'items', 'values') and failed and self.fault_seen:
            if kind in ('items', 'values'):
                self.tainted[c].update(model)
            else:
                self.tainted[c].add(op[2])


_DEFAULT = object()


class _Damaged:
    def __init__(self, uid):
        self.uid = uid


def _sub_index(op):
    """Index of the sub-cache created by a ['sub', parent, name, index] op (older replay files: name 'S<index>')."""
    return int(op[3]) if len(op) > 3 else int(op[2][1:])


class _Skip(Exception):
    pass


def _short(outcome):
    return list(outcome) if len(repr(outcome)) < 80 else [outcome[0], 'long']
