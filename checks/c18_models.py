"""A model with a time-dependent Hamiltonian for the TimeDependent* engines (C18 configurations).

The Simulation finds the class by name (`model_class: DrivenXXZ`) among the subclasses of Model, so
importing this module is enough - also for the resumed run, which reads the name from the checkpoint.
"""

import numpy as np

from tenpy.models.model import CouplingMPOModel, NearestNeighborModel
from tenpy.models.tf_ising import TFIChain
from tenpy.networks.site import SpinHalfSite


class DrivenXXZ(CouplingMPOModel, NearestNeighborModel):
    r"""XXZ chain in a rotating field: H(t) = sum J (SxSx + SySy) + Jz SzSz + h (cos(w t) Sz + sin(w t) Sx)."""

    default_lattice = 'Chain'
    force_default_lattice = True

    def init_sites(self, model_params):
        return SpinHalfSite(conserve=None)

    def init_terms(self, model_params):
        t = model_params.get('time', 0.0, 'real')
        J = model_params.get('Jxx', 1.0, 'real')
        Jz = model_params.get('Jz', 1.5, 'real')
        h = model_params.get('h', 0.7, 'real')
        w = model_params.get('omega', 2.0, 'real')
        for u1, u2, dx in self.lat.pairs['nearest_neighbors']:
            self.add_coupling(0.5 * J, u1, 'Sp', u2, 'Sm', dx, plus_hc=True)
            self.add_coupling(Jz, u1, 'Sz', u2, 'Sz', dx)
        self.add_onsite(h * np.cos(w * t), 0, 'Sz')
        self.add_onsite(h * np.sin(w * t), 0, 'Sx')


class DisorderedTFI(TFIChain):
    """Transverse-field Ising chain with random fields g_i = g + W x_i, x_i uniform in [0, 1), drawn when the model
    is built: from numpy's global (legacy) generator, which `Simulation.random_seed` seeds, or from the model's own
    `rng` (seeded by `model_params['random_seed']`, which the simulation derives from its `random_seed`).  The
    model is built again when a simulation is resumed; the same disorder realisation has to come out."""

    def init_terms(self, model_params):
        J = np.asarray(model_params.get('J', 1.0, 'real_or_array'))
        g = np.asarray(model_params.get('g', 1.0, 'real_or_array'))
        W = model_params.get('W', 0.3, 'real')
        source = model_params.get('disorder_source', 'np', str)
        L = self.lat.N_sites
        x = np.random.random(L) if source == 'np' else self.rng.random(L)
        self.add_onsite(-(g + W * x), 0, 'Sigmaz')
        for u1, u2, dx in self.lat.pairs['nearest_neighbors']:
            self.add_coupling(-J, u1, 'Sigmax', u2, 'Sigmax', dx)


def constant_measurement(value=1.0):
    """A plain function (no results/psi/model/simulation arguments) to be connected as
    ``[module, 'wrap constant_measurement', {'results_key': ..., 'value': ...}]``."""
    return float(value)


def m_late(results, psi, model, simulation, results_key='late_value', onset=1):
    """Measurement function whose key only appears from the second measurement on: tenpy then fills the
    earlier entries with None, so the list cannot become a numpy array and stays a list in the checkpoints."""
    previous = simulation.results.get('measurements', None)
    if previous:
        n = len(next(iter(previous.values())))
        if n >= onset:  # the key first appears at measurement number `onset` (counted from 0)
            results[results_key] = float(n) + float(abs(psi.overlap(psi)))


def m_trunc_err(results, psi, model, simulation, results_key='trunc_err'):
    """Record the accumulated truncation error *object* of a time-evolution engine.  tenpy stores lists of
    TruncationError as two arrays `<key>_eps` and `<key>_ov` when saving (prepare_results_for_save)."""
    err = getattr(simulation.engine, 'trunc_err', None)
    if err is not None:
        results[results_key] = err.copy() if hasattr(err, 'copy') else err
